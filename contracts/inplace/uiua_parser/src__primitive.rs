// Purity classification contracts (C20) on parser/src/primitive.rs + defs.rs.
#[cfg(kani)]
mod verif_kani_purity {
    use super::*;
    use crate::SysOp;

    /// System functions documented as read-only queries; every other system
    /// function changes state outside the interpreter and must be `Mutating`
    /// (so that editor mode, whose threshold is `Impure`, never runs it).
    /// Written from the documentation strings in defs.rs, not from the macro's
    /// purity column.
    fn documented_read_only(op: SysOp) -> bool {
        matches!(
            op,
            SysOp::Var
                | SysOp::Clip
                | SysOp::FOpen
                | SysOp::FExists
                | SysOp::FListDir
                | SysOp::FIsFile
                | SysOp::FReadAllStr
                | SysOp::FReadAllBytes
                | SysOp::AudioSampleRate
                | SysOp::WebcamList
        )
    }

    //@ id=C20.e1.sysop.never_pure props=C20,C09 level=complete tier=quick desc="for every system function: never Pure; Mutating unless documented as a read-only query; Primitive::Sys(op) reports the same purity"
    #[kani::proof]
    fn vk_c20_sysop_never_pure() {
        let i: usize = kani::any();
        kani::assume(i < SysOp::ALL.len());
        let op = SysOp::ALL[i];
        assert!(op.purity() != Purity::Pure);
        assert!(op.purity() == Purity::Mutating || documented_read_only(op));
        assert!(Primitive::Sys(op).purity() == op.purity());
        // the gate compares with >=
        assert!(!(Primitive::Sys(op).purity() >= Purity::Pure));
    }
    //@ id=C20.e1.sysop.all_is_complete props=C20 level=complete tier=quick desc="SysOp::ALL really lists every variant (so the quantifier above ranges over all system functions)"
    #[kani::proof]
    fn vk_c20_sysop_all_complete() {
        assert!(SysOp::ALL.len() == <SysOp as enum_iterator::Sequence>::CARDINALITY);
        let i: usize = kani::any();
        let j: usize = kani::any();
        kani::assume(i < SysOp::ALL.len() && j < SysOp::ALL.len() && i != j);
        assert!(SysOp::ALL[i] != SysOp::ALL[j]);
    }
    //@ id=C20.e1.purity.order props=C20 level=complete tier=quick desc="Mutating < Impure < Pure: the order the purity gate relies on"
    #[kani::proof]
    fn vk_c20_purity_order() {
        assert!(Purity::Mutating < Purity::Impure && Purity::Impure < Purity::Pure);
    }
    //@ id=C20.e1.primitive.env_dependent_not_pure props=C20,C09 level=complete tier=quick desc="primitives documented as reading the clock, host, random source, threads or printing are not Pure; printing ones are Mutating"
    #[kani::proof]
    fn vk_c20_prim_env_dependent() {
        for p in [
            Primitive::Now,
            Primitive::TimeZone,
            Primitive::Rand,
            Primitive::Os,
            Primitive::OsFamily,
            Primitive::Arch,
            Primitive::DllExt,
            Primitive::ExeExt,
            Primitive::PathSep,
            Primitive::NumProcs,
            Primitive::Send,
            Primitive::Recv,
            Primitive::TryRecv,
            Primitive::Spawn,
            Primitive::Pool,
            Primitive::Assert,
        ] {
            assert!(p.purity() < Purity::Pure);
        }
        for p in [Primitive::Args, Primitive::Dump, Primitive::Wait] {
            assert!(p.purity() == Purity::Mutating);
        }
    }
    //@ id=C20.e1.purity.canary props=C20 level=complete tier=quick expect=fail desc="deliberately false: every system function is Mutating"
    #[kani::proof]
    fn vk_c20_purity_canary() {
        let i: usize = kani::any();
        kani::assume(i < SysOp::ALL.len());
        assert!(SysOp::ALL[i].purity() == Purity::Mutating);
    }
}
