// Contracts on the span algebra (Loc / CodeSpan) and on Lexer::update_loc of
// parser/src/lex.rs.  Appended to a scratch copy of the real file.
#[cfg(kani)]
mod verif_kani_lex {
    use super::*;

    fn any_loc() -> Loc {
        Loc {
            line: kani::any(),
            col: kani::any(),
            byte_pos: kani::any(),
            char_pos: kani::any(),
        }
    }
    /// `a` is at or before `b` in every component (line/col lexicographically).
    /// Two positions of one text are always related this way (update_loc is
    /// monotone in each component — proved below).
    fn le4(a: Loc, b: Loc) -> bool {
        (a.line, a.col) <= (b.line, b.col) && a.byte_pos <= b.byte_pos && a.char_pos <= b.char_pos
    }
    fn coherent(a: Loc, b: Loc) -> bool {
        le4(a, b) || le4(b, a)
    }
    fn wf(s: &CodeSpan) -> bool {
        le4(s.start, s.end)
    }
    fn span(start: Loc, end: Loc) -> CodeSpan {
        CodeSpan {
            src: InputSrc::Str(0),
            start,
            end,
        }
    }

    //@ id=C19.e1.loc.derived_ord_is_position_order props=C19 level=complete tier=quick desc="for coherent locations the derived Ord on Loc (line,col,byte,char) agrees with every component order"
    #[kani::proof]
    fn vk_c19_loc_ord() {
        let a = any_loc();
        let b = any_loc();
        kani::assume(coherent(a, b));
        if a <= b {
            assert!(le4(a, b));
        } else {
            assert!(le4(b, a));
        }
        assert!(a.min(b) == if le4(a, b) { a } else { b });
    }

    //@ id=C19.e1.codespan.merge.hull props=C19,C09 level=complete tier=quick desc="merge of two well-formed mutually coherent spans is their hull in every component, well-formed and coherent with both"
    #[kani::proof]
    fn vk_c19_merge_hull() {
        let (a0, a1, b0, b1) = (any_loc(), any_loc(), any_loc(), any_loc());
        let s1 = span(a0, a1);
        let s2 = span(b0, b1);
        kani::assume(wf(&s1) && wf(&s2));
        kani::assume(coherent(a0, b0) && coherent(a0, b1) && coherent(a1, b0) && coherent(a1, b1));
        let m = s1.clone().merge(s2.clone());
        // hull in every component
        assert!(m.start.byte_pos == a0.byte_pos.min(b0.byte_pos));
        assert!(m.start.char_pos == a0.char_pos.min(b0.char_pos));
        assert!((m.start.line, m.start.col) == (a0.line, a0.col).min((b0.line, b0.col)));
        assert!(m.end.byte_pos == a1.byte_pos.max(b1.byte_pos));
        assert!(m.end.char_pos == a1.char_pos.max(b1.char_pos));
        assert!((m.end.line, m.end.col) == (a1.line, a1.col).max((b1.line, b1.col)));
        // start/end are actual positions of the inputs (all components describe the same place)
        assert!(m.start == a0 || m.start == b0);
        assert!(m.end == a1 || m.end == b1);
        assert!(wf(&m));
        assert!(le4(m.start, a0) && le4(m.start, b0) && le4(a1, m.end) && le4(b1, m.end));
        // merge_with is the same function
        let mut mw = s1.clone();
        mw.merge_with(s2.clone());
        assert!(mw.start == m.start && mw.end == m.end);
        // byte_range cannot be reversed, char_count is exact
        let r = m.byte_range();
        assert!(r.start <= r.end && r.start == m.start.byte_pos as usize && r.end == m.end.byte_pos as usize);
        assert!(m.char_count() == m.end.char_pos - m.start.char_pos);
    }
    //@ id=C19.e1.codespan.merge.reach props=C19 level=complete tier=quick expect=fail desc="vacuity guard for merge preconditions"
    #[kani::proof]
    fn vk_c19_merge_reach() {
        let (a0, a1, b0, b1) = (any_loc(), any_loc(), any_loc(), any_loc());
        let s1 = span(a0, a1);
        let s2 = span(b0, b1);
        kani::assume(wf(&s1) && wf(&s2));
        kani::assume(coherent(a0, b0) && coherent(a0, b1) && coherent(a1, b0) && coherent(a1, b1));
        kani::assume(a0 != b0 && a1 != b1 && a0 != a1);
        assert!(false);
    }

    //@ id=C19.e1.codespan.end_to.wf props=C19,C09 level=complete tier=quick desc="the gap between a span and a later one is a well-formed span made of their own positions"
    #[kani::proof]
    fn vk_c19_end_to() {
        let (a0, a1, b0, b1) = (any_loc(), any_loc(), any_loc(), any_loc());
        let s1 = span(a0, a1);
        let s2 = span(b0, b1);
        kani::assume(wf(&s1) && wf(&s2) && le4(a1, b0));
        let g = s1.end_to(&s2);
        assert!(g.start == a1 && g.end == b0 && wf(&g));
        let r = g.byte_range();
        assert!(r.start <= r.end);
    }

    //@ id=C19.e1.codespan.contains_line_col.no_panic props=C19,C09 level=complete tier=quick desc="contains_line_col never panics/overflows and a single-line span contains exactly its columns"
    #[kani::proof]
    fn vk_c19_contains() {
        let (a0, a1) = (any_loc(), any_loc());
        let s = span(a0, a1);
        kani::assume(wf(&s));
        let line: u16 = kani::any();
        let col: u16 = kani::any();
        let inside = s.contains_line_col(line as usize, col as usize);
        let inside_end = s.contains_line_col_end(line as usize, col as usize);
        if a0.line == a1.line {
            assert!(inside == (line == a0.line && a0.col <= col && col < a1.col));
            assert!(inside_end == (line == a0.line && a0.col <= col && col <= a1.col));
        }
        if inside {
            assert!(inside_end);
            assert!(a0.line <= line && line <= a1.line);
        }
    }

    fn lexer_at<'a>(loc: Loc) -> Lexer<'a> {
        Lexer {
            input: "",
            input_segments: Vec::new(),
            loc,
            src: InputSrc::Str(0),
            tokens: Vec::new(),
            errors: Vec::new(),
        }
    }

    //@ id=C19.e1.update_loc.one_char props=C19,C09 level=complete tier=quick budget=600 desc="stepping over any one-character segment from any location: byte offset advances by the UTF-8 length, char position by one, line/col per the newline rule; every component is monotone (saturating)"
    #[kani::proof]
    #[kani::unwind(6)]
    fn vk_c19_update_loc_one() {
        let start = any_loc();
        let c: char = kani::any();
        let mut buf = [0u8; 4];
        let s: &str = c.encode_utf8(&mut buf);
        let n = c.len_utf8() as u32;
        let mut lx = lexer_at(start);
        lx.update_loc(s);
        let l = lx.loc;
        assert!(l.byte_pos == start.byte_pos.saturating_add(n));
        assert!(l.char_pos == start.char_pos.saturating_add(1));
        if c == '\n' {
            assert!(l.line == start.line.saturating_add(1) && l.col == 1);
        } else if c == '\r' {
            assert!(l.line == start.line && l.col == start.col);
        } else {
            assert!(l.line == start.line && l.col == start.col.saturating_add(1));
        }
        // monotone: tokens built from successive locations are ordered
        if start.line < u16::MAX {
            assert!(le4(start, l));
        }
        std::mem::forget(lx);
    }

    //@ id=C19.e1.update_loc.two_chars props=C19,C09 level=complete tier=quick budget=900 desc="a two-character segment (CRLF, base+combining mark) advances char position by one, bytes by both lengths, columns by the non-newline characters"
    #[kani::proof]
    #[kani::unwind(10)]
    fn vk_c19_update_loc_two() {
        let start = any_loc();
        let c1: char = kani::any();
        let c2: char = kani::any();
        let mut buf = [0u8; 8];
        let n1 = c1.encode_utf8(&mut buf[..4]).len();
        let mut tmp = [0u8; 4];
        let n2 = c2.encode_utf8(&mut tmp).len();
        let mut i = 0;
        while i < n2 {
            buf[n1 + i] = tmp[i];
            i += 1;
        }
        let s: &str = unsafe { std::str::from_utf8_unchecked(&buf[..n1 + n2]) };
        let mut lx = lexer_at(start);
        lx.update_loc(s);
        let l = lx.loc;
        assert!(l.byte_pos == start.byte_pos.saturating_add((n1 + n2) as u32));
        assert!(l.char_pos == start.char_pos.saturating_add(1));
        let mut line = start.line;
        let mut col = start.col;
        for c in [c1, c2] {
            if c == '\n' {
                line = line.saturating_add(1);
                col = 1;
            } else if c != '\r' {
                col = col.saturating_add(1);
            }
        }
        assert!(l.line == line && l.col == col);
        std::mem::forget(lx);
    }

    //@ id=C19.e1.canary props=C19 level=complete tier=quick expect=fail desc="deliberately false: merge keeps the first span's start"
    #[kani::proof]
    fn vk_c19_canary() {
        let (a0, a1, b0, b1) = (any_loc(), any_loc(), any_loc(), any_loc());
        let s1 = span(a0, a1);
        let s2 = span(b0, b1);
        kani::assume(wf(&s1) && wf(&s2));
        let m = s1.merge(s2);
        assert!(m.start == a0);
    }
}
