// Contracts on parser/src/signature.rs.  `compose`, `inverse` and `anti` carry
// Kani *function contracts* (spliced above the real fns, see splices.json) whose
// pre/postconditions are the functions below; the rest are harness-level
// pre/postconditions on the real functions.
#[cfg(kani)]
pub(crate) mod verif_kani_signature {
    use super::*;

    /// Stack-height transformer denoted by a signature: defined iff the stack
    /// holds at least `a` values (C02: "never needs a value the signature did not count").
    pub fn eff(a: usize, o: usize, h: u64) -> Option<u64> {
        if h >= a as u64 { Some(h - a as u64 + o as u64) } else { None }
    }
    pub fn any_sig() -> Signature {
        let (a, o, ua, uo): (u16, u16, u16, u16) = (kani::any(), kani::any(), kani::any(), kani::any());
        Signature::new(a as usize, o as usize).with_under(ua as usize, uo as usize)
    }
    impl kani::Arbitrary for Signature {
        fn any() -> Self {
            any_sig()
        }
    }
    /// Precondition of compose, from the constructors' `as u16` truncation:
    /// the composed counts must be representable.
    pub fn compose_pre(f: Signature, g: Signature) -> bool {
        f.args() + g.args() <= 0xFFFF
            && f.outputs() + g.outputs() <= 0xFFFF
            && f.under_args() + g.under_args() <= 0xFFFF
            && f.under_outputs() + g.under_outputs() <= 0xFFFF
    }
    /// Postcondition of `f.compose(g)` ("g is called before f"), for an
    /// arbitrary stack height h: the composed signature denotes exactly the
    /// composition of the two height transformers — on the main stack and on
    /// the under stack.  Because this holds for every h, `args` is the least
    /// height at which running g then f is defined, and `outputs` is what is
    /// left there.
    pub fn compose_post(f: Signature, g: Signature, r: Signature) -> bool {
        let h: u32 = kani::any();
        let h = h as u64;
        let main = eff(r.args(), r.outputs(), h)
            == eff(g.args(), g.outputs(), h).and_then(|h1| eff(f.args(), f.outputs(), h1));
        let under = eff(r.under_args(), r.under_outputs(), h)
            == eff(g.under_args(), g.under_outputs(), h).and_then(|h1| eff(f.under_args(), f.under_outputs(), h1));
        main && under
    }
    /// anti(F) for F = |a.o: defined iff a >= 1; takes F's outputs plus the
    /// fixed first argument, returns F's remaining a-1 arguments.
    pub fn anti_post(s: Signature, r: Option<Signature>) -> bool {
        match r {
            None => s.args() == 0,
            Some(r) => s.args() >= 1 && r.args() == s.outputs() + 1 && r.outputs() == s.args() - 1,
        }
    }

    //@ id=C02.e1.signature.compose.contract props=C02,C09 level=complete tier=quick desc="function contract of Signature::compose: denotes the composition of the two stack-height transformers (main and under stack), for every height"
    #[kani::proof_for_contract(Signature::compose)]
    fn vk_c02_compose_contract() {
        let f = any_sig();
        let g = any_sig();
        let _ = f.compose(g);
    }
    //@ id=C02.e1.signature.compose.reach props=C02 level=complete tier=quick expect=fail desc="vacuity guard: compose's precondition is satisfiable"
    #[kani::proof]
    fn vk_c02_compose_reach() {
        let f = any_sig();
        let g = any_sig();
        kani::assume(compose_pre(f, g));
        assert!(false);
    }
    //@ id=C02.e1.signature.compose.associative props=C02 level=complete tier=quick desc="compose is associative (folding a node list in any grouping gives the same signature); proved from the real function"
    #[kani::proof]
    fn vk_c02_compose_assoc() {
        let (f, g, k) = (any_sig(), any_sig(), any_sig());
        kani::assume(f.args() < 0x4000 && g.args() < 0x4000 && k.args() < 0x4000);
        kani::assume(f.outputs() < 0x4000 && g.outputs() < 0x4000 && k.outputs() < 0x4000);
        kani::assume(f.under_args() < 0x4000 && g.under_args() < 0x4000 && k.under_args() < 0x4000);
        kani::assume(f.under_outputs() < 0x4000 && g.under_outputs() < 0x4000 && k.under_outputs() < 0x4000);
        assert!(f.compose(g).compose(k) == f.compose(g.compose(k)));
        // identity element
        assert!(f.compose(Signature::new(0, 0)) == f && Signature::new(0, 0).compose(f) == f);
    }
    //@ id=C03.e1.signature.inverse.contract props=C03,C02,C09 level=complete tier=quick desc="function contract of Signature::inverse: the mirror image"
    #[kani::proof_for_contract(Signature::inverse)]
    fn vk_c03_inverse_contract() {
        let s = any_sig();
        let _ = s.inverse();
    }
    //@ id=C03.e1.signature.inverse.involutive props=C03 level=complete tier=quick desc="un un F has F's signature"
    #[kani::proof]
    fn vk_c03_inverse_involutive() {
        let s = any_sig();
        let r = s.inverse().inverse();
        assert!(r.args() == s.args() && r.outputs() == s.outputs());
    }
    //@ id=C03.e1.signature.anti.contract props=C03,C02,C09 level=complete tier=quick desc="function contract of Signature::anti: the dual signature, defined iff F takes an argument"
    #[kani::proof_for_contract(Signature::anti)]
    fn vk_c03_anti_contract() {
        let s = any_sig();
        let _ = s.anti();
    }
    //@ id=C03.e1.signature.anti.dual props=C03 level=complete tier=quick desc="anti F a b = un (F a) b at the signature level: fixing F's first argument then mirroring equals anti, via the verified contracts only"
    #[kani::proof]
    #[kani::stub_verified(Signature::inverse)]
    fn vk_c03_anti_dual() {
        let s = any_sig();
        kani::assume(s.args() >= 1 && s.outputs() < 0xFFFF);
        // F with its first argument fixed
        let fixed = Signature::new(s.args() - 1, s.outputs());
        let un = fixed.inverse();
        let anti = s.anti().unwrap();
        // anti takes that fixed argument in addition
        assert!(anti.args() == un.args() + 1 && anti.outputs() == un.outputs());
    }
    //@ id=C02.e1.signature.new.exact props=C02,C09 level=complete tier=quick desc="constructors and accessors are exact within u16 (the `as u16` truncation is the stated precondition)"
    #[kani::proof]
    fn vk_c02_new_exact() {
        let a: usize = kani::any();
        let o: usize = kani::any();
        let ua: usize = kani::any();
        let uo: usize = kani::any();
        kani::assume(a <= 0xFFFF && o <= 0xFFFF && ua <= 0xFFFF && uo <= 0xFFFF);
        let s = Signature::new(a, o);
        assert!(s.args() == a && s.outputs() == o && s.under_args() == 0 && s.under_outputs() == 0);
        let s = s.with_under(ua, uo);
        assert!(s.args() == a && s.outputs() == o && s.under_args() == ua && s.under_outputs() == uo);
        assert!(s.under() == Signature::new(ua, uo));
        assert!(s.net() == o as isize - a as isize);
        assert!(s == (a, o));
        let mut t = s;
        t.set_args(o);
        t.set_outputs(a);
        assert!(t.args() == o && t.outputs() == a && t.under_args() == ua);
    }
    //@ id=C02.e1.signature.compat.laws props=C02,C09 level=complete tier=quick desc="is_compatible_with = same net effect; subset/superset add the argument-count order; max_with is the component-wise maximum"
    #[kani::proof]
    fn vk_c02_compat() {
        let (s, t) = (any_sig(), any_sig());
        assert!(s.is_compatible_with(t) == (s.outputs() as i64 - s.args() as i64 == t.outputs() as i64 - t.args() as i64));
        assert!(s.is_superset_of(t) == (s.is_compatible_with(t) && s.args() >= t.args()));
        assert!(s.is_subset_of(t) == (s.is_compatible_with(t) && s.args() <= t.args()));
        let m = s.max_with(t);
        assert!(m.args() == s.args().max(t.args()) && m.outputs() == s.outputs().max(t.outputs()));
        assert!(m.under_args() == s.under_args().max(t.under_args()) && m.under_outputs() == s.under_outputs().max(t.under_outputs()));
        // a compatible superset behaves identically on every stack tall enough for it
        if s.is_superset_of(t) {
            let h: u32 = kani::any();
            let h = h as u64;
            if h >= s.args() as u64 {
                assert!(eff(s.args(), s.outputs(), h) == eff(t.args(), t.outputs(), h));
            }
        }
    }
    //@ id=C02.e1.signature.canary props=C02,C03 level=complete tier=quick expect=fail desc="deliberately false: compose is commutative"
    #[kani::proof]
    fn vk_c02_sig_canary() {
        let (f, g) = (any_sig(), any_sig());
        kani::assume(compose_pre(f, g));
        assert!(f.compose(g) == g.compose(f));
    }
}
