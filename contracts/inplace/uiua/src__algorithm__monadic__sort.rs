// Contracts on the sort kernels of src/algorithm/monadic/sort.rs (bounded sizes):
// output sorted w.r.t. the comparator, a permutation of the input rows, and no
// out-of-bounds access in the unsafe swap blocks (Kani pointer checks).
#[cfg(kani)]
mod verif_kani_sort {
    use super::*;

    fn rowcmp(a: &[u8], b: &[u8]) -> Ordering {
        ArrayCmpSlice(a).cmp(&ArrayCmpSlice(b))
    }
    fn sorted<const N: usize>(v: &[u8; N], row_len: usize) -> bool {
        let rows = N / row_len;
        let mut i = 1;
        while i < rows {
            if rowcmp(&v[(i - 1) * row_len..i * row_len], &v[i * row_len..(i + 1) * row_len]) == Ordering::Greater {
                return false;
            }
            i += 1;
        }
        true
    }
    /// number of rows equal to the probe row
    fn count<const N: usize>(v: &[u8; N], row_len: usize, probe: &[u8]) -> usize {
        let rows = N / row_len;
        let mut n = 0;
        let mut i = 0;
        while i < rows {
            let mut eq = true;
            let mut k = 0;
            while k < row_len {
                if v[i * row_len + k] != probe[k] {
                    eq = false;
                }
                k += 1;
            }
            if eq {
                n += 1;
            }
            i += 1;
        }
        n
    }
    fn check_sort<const N: usize>(row_len: usize, which: u8) {
        let before: [u8; N] = kani::any();
        let probe: [u8; 2] = kani::any();
        let mut v = before;
        // NB: intro_sort / sort are never referenced: they reach rayon::join, which Kani cannot compile
        match which {
            0 => insertion_sort(&mut v, row_len, rowcmp),
            _ => heap_sort(&mut v, row_len, rowcmp),
        }
        assert!(sorted(&v, row_len));
        // permutation: every possible row occurs as often as before
        assert!(count(&before, row_len, &probe) == count(&v, row_len, &probe));
    }

    //@ id=C05.e1.sort.debug_assertions_on props=C05,C09 level=complete tier=quick desc="the Kani build has debug assertions enabled (so sort_count's guards and the safe slicing variant of cmp are what is compiled; the release-only from_raw_parts variant is NOT covered)"
    #[kani::proof]
    fn vk_c05_sort_cfg() {
        assert!(cfg!(debug_assertions));
    }
    //@ id=C05.e1.sort.insertion_sort.4x1 props=C05,C15,C09 level=bounded tier=quick bound="4 rows x 1" budget=600 desc="insertion_sort: sorted, permutation, pointer-safe"
    #[kani::proof]
    #[kani::unwind(6)]
    fn vk_c05_insertion_4x1() {
        check_sort::<4>(1, 0);
    }
    //@ id=C05.e1.sort.insertion_sort.3x2 props=C05,C15,C09 level=bounded tier=quick bound="3 rows x 2" budget=600 desc="insertion_sort on 2-element rows"
    #[kani::proof]
    #[kani::unwind(7)]
    fn vk_c05_insertion_3x2() {
        check_sort::<6>(2, 0);
    }
    //@ id=C05.e1.sort.insertion_sort.5x1 props=C05,C15,C09 level=bounded tier=thorough bound="5 rows x 1" budget=3000 desc="insertion_sort, 5 rows"
    #[kani::proof]
    #[kani::unwind(7)]
    fn vk_c05_insertion_5x1() {
        check_sort::<5>(1, 0);
    }
    //@ id=C05.e1.sort.heap_sort.3x1 props=C05,C15,C09 level=bounded tier=quick bound="3 rows x 1" budget=900 desc="heap_sort (heapify + sift_down): sorted, permutation, pointer-safe"
    #[kani::proof]
    #[kani::unwind(5)]
    fn vk_c05_heap_3x1() {
        check_sort::<3>(1, 1);
    }
    //@ id=C05.e1.sort.heap_sort.4x1 props=C05,C15,C09 level=bounded tier=thorough bound="4 rows x 1" budget=3000 desc="heap_sort, 4 rows"
    #[kani::proof]
    #[kani::unwind(6)]
    fn vk_c05_heap_4x1() {
        check_sort::<4>(1, 1);
    }
    //@ id=C05.e1.sort.heap_sort.2x2 props=C05,C15,C09 level=bounded tier=quick bound="2 rows x 2" budget=900 desc="heap_sort on 2-element rows"
    #[kani::proof]
    #[kani::unwind(5)]
    fn vk_c05_heap_2x2() {
        check_sort::<4>(2, 1);
    }
    //@ id=C05.e1.sort.partition.4x1 props=C05,C15,C09 level=bounded tier=thorough bound="4 rows x 1" budget=6000 desc="partition: returns an in-bounds pivot position with nothing greater before it and nothing smaller after it; permutation; pointer-safe"
    #[kani::proof]
    #[kani::unwind(7)]
    fn vk_c05_partition_4x1() {
        let before: [u8; 4] = kani::any();
        let probe: [u8; 2] = kani::any();
        let mut v = before;
        let p = partition(&mut v, 1, rowcmp);
        assert!(p < 4);
        let mut i = 0;
        while i < 4 {
            if i < p {
                assert!(v[i] <= v[p]);
            }
            if i > p {
                assert!(v[i] >= v[p]);
            }
            i += 1;
        }
        assert!(count(&before, 1, &probe) == count(&v, 1, &probe));
    }
    //@ id=C05.e1.sort.partition.2x1 props=C05,C15,C09 level=bounded tier=quick bound="2 rows x 1" budget=600 desc="partition, 2 rows: in-bounds pivot position, nothing greater before it, nothing smaller after it; permutation; pointer-safe"
    #[kani::proof]
    #[kani::unwind(5)]
    fn vk_c05_partition_2x1() {
        let before: [u8; 2] = kani::any();
        let probe: [u8; 2] = kani::any();
        let mut v = before;
        let p = partition(&mut v, 1, rowcmp);
        assert!(p < 2);
        let mut i = 0;
        while i < 2 {
            if i < p {
                assert!(v[i] <= v[p]);
            }
            if i > p {
                assert!(v[i] >= v[p]);
            }
            i += 1;
        }
        assert!(count(&before, 1, &probe) == count(&v, 1, &probe));
    }
    //@ id=C05.e1.sort.partition.3x1 props=C05,C15,C09 level=bounded tier=thorough bound="3 rows x 1" budget=1500 desc="partition, 3 rows: in-bounds pivot position, nothing greater before it, nothing smaller after it; permutation; pointer-safe"
    #[kani::proof]
    #[kani::unwind(6)]
    fn vk_c05_partition_3x1() {
        let before: [u8; 3] = kani::any();
        let probe: [u8; 2] = kani::any();
        let mut v = before;
        let p = partition(&mut v, 1, rowcmp);
        assert!(p < 3);
        let mut i = 0;
        while i < 3 {
            if i < p {
                assert!(v[i] <= v[p]);
            }
            if i > p {
                assert!(v[i] >= v[p]);
            }
            i += 1;
        }
        assert!(count(&before, 1, &probe) == count(&v, 1, &probe));
    }
    //@ id=C05.e1.sort.partition.3x2 props=C05,C15,C09 level=bounded tier=thorough bound="3 rows x 2" budget=3000 desc="partition with 2-element rows (pivot index scaled by row_len)"
    #[kani::proof]
    #[kani::unwind(7)]
    fn vk_c05_partition_3x2() {
        let before: [u8; 6] = kani::any();
        let probe: [u8; 2] = kani::any();
        let mut v = before;
        let p = partition(&mut v, 2, rowcmp);
        assert!(p % 2 == 0 && p < 6);
        let mut i = 0;
        while i < 3 {
            let o = rowcmp(&v[i * 2..i * 2 + 2], &v[p..p + 2]);
            if i * 2 < p {
                assert!(o != Ordering::Greater);
            }
            if i * 2 > p {
                assert!(o != Ordering::Less);
            }
            i += 1;
        }
        assert!(count(&before, 2, &probe) == count(&v, 2, &probe));
    }
    //@ id=C05.e1.sort.canary props=C05 level=bounded tier=quick expect=fail desc="deliberately false: insertion_sort sorts descending"
    #[kani::proof]
    #[kani::unwind(6)]
    fn vk_c05_sort_canary() {
        let mut v: [u8; 3] = kani::any();
        insertion_sort(&mut v, 1, rowcmp);
        assert!(v[0] >= v[1]);
    }
}
