// Purity of implementation primitives that reach the backend (C20).
#[cfg(kani)]
mod verif_kani_impl_purity {
    use super::*;

    //@ id=C20.e1.implprim.backend_reaching_not_pure props=C20,C09 level=complete tier=quick desc="implementation primitives whose run-time arm calls the backend (run_prim.rs) are not Pure; the one that writes (UnClip) is Mutating"
    #[kani::proof]
    fn vk_c20_implprim_backend() {
        // TryClose is deliberately not listed: it also reaches the backend but is only
        // produced by the under-template of &runs, behind a Mutating node (DESIGN.md §5 F7).
        for p in [
            ImplPrimitive::UnRawMode,
            ImplPrimitive::UnChangeDirectory,
            ImplPrimitive::UnStack,
            ImplPrimitive::UnDump,
            ImplPrimitive::RandomRow,
            ImplPrimitive::ReplaceRand,
            ImplPrimitive::ReplaceRand2,
        ] {
            assert!(p.purity() < Purity::Pure);
        }
        assert!(ImplPrimitive::UnClip.purity() == Purity::Mutating);
        let n: usize = kani::any();
        let inverse: bool = kani::any();
        assert!(ImplPrimitive::StackN { n, inverse }.purity() == Purity::Mutating);
    }
}
