// Contracts on the element-level comparison / hashing / flag / serialised-float
// functions of src/array.rs.  Appended to a scratch copy of the real file.
#[cfg(kani)]
mod verif_kani_array {
    use super::*;
    use std::hash::Hasher;

    /// A hasher that records what is written to it (so that "equal hash" is
    /// "equal byte string written", independent of any hash function).
    pub(crate) struct Rec {
        pub buf: [u8; 96],
        pub n: usize,
    }
    impl Rec {
        pub fn new() -> Self {
            Rec { buf: [0; 96], n: 0 }
        }
        pub fn same(&self, o: &Rec) -> bool {
            self.n == o.n && self.buf == o.buf
        }
    }
    impl Hasher for Rec {
        fn finish(&self) -> u64 {
            0
        }
        fn write(&mut self, bytes: &[u8]) {
            for b in bytes {
                if self.n < 96 {
                    self.buf[self.n] = *b;
                }
                self.n += 1;
            }
        }
    }
    pub(crate) fn h<T: ArrayValue>(x: &T) -> Rec {
        let mut r = Rec::new();
        x.array_hash(&mut r);
        r
    }
    fn anyf() -> f64 {
        f64::from_bits(kani::any())
    }

    // ---------------- C15: element-level laws ----------------
    fn is_sentinel(x: f64) -> bool {
        x.to_bits() == EMPTY_NAN.to_bits() || x.to_bits() == TOMBSTONE_NAN.to_bits()
    }
    fn any_f64_nw() -> f64 {
        let a = anyf();
        kani::assume(!a.has_wildcard());
        a
    }
    fn any_u8() -> u8 {
        kani::any()
    }
    fn any_char_nw() -> char {
        let c: char = kani::any();
        kani::assume(!c.has_wildcard());
        c
    }
    fn any_complex() -> Complex {
        // Complex::has_wildcard() is always false; a component that *is* the wildcard
        // NaN is excluded here explicitly (the property speaks of wildcard-free values)
        let c = Complex::new(anyf(), anyf());
        kani::assume(!c.re.has_wildcard() && !c.im.has_wildcard());
        c
    }

    fn laws2<T: ArrayCmp>(a: T, b: T) {
        // reflexive
        assert!(a.array_eq(&a) && a.array_cmp(&a) == Ordering::Equal);
        // symmetric / antisymmetric
        assert!(a.array_eq(&b) == b.array_eq(&a));
        assert!(a.array_cmp(&b) == b.array_cmp(&a).reverse());
        // 'equal' of the order coincides with the equivalence
        assert!(a.array_eq(&b) == (a.array_cmp(&b) == Ordering::Equal));
    }
    fn laws3<T: ArrayCmp>(a: T, b: T, c: T) {
        if a.array_cmp(&b) != Ordering::Greater && b.array_cmp(&c) != Ordering::Greater {
            assert!(a.array_cmp(&c) != Ordering::Greater);
            if a.array_cmp(&b) == Ordering::Less || b.array_cmp(&c) == Ordering::Less {
                assert!(a.array_cmp(&c) == Ordering::Less);
            }
        }
        if a.array_eq(&b) && b.array_eq(&c) {
            assert!(a.array_eq(&c));
        }
    }

    //@ id=C15.e1.f64.eq_ord_laws props=C15,C09 level=complete tier=quick desc="f64: array_eq reflexive+symmetric, array_cmp antisymmetric, Equal <=> array_eq, for all wildcard-free pairs"
    #[kani::proof]
    fn vk_c15_f64_laws2() {
        laws2(any_f64_nw(), any_f64_nw());
    }
    //@ id=C15.e1.f64.transitive props=C15 level=complete tier=thorough budget=3000 desc="f64: array_cmp / array_eq transitive over all wildcard-free triples"
    #[kani::proof]
    fn vk_c15_f64_laws3() {
        laws3(any_f64_nw(), any_f64_nw(), any_f64_nw());
    }
    //@ id=C15.e1.u8.eq_ord_laws props=C15,C09 level=complete tier=quick desc="u8 laws (pairs)"
    #[kani::proof]
    fn vk_c15_u8_laws2() {
        laws2(any_u8(), any_u8());
    }
    //@ id=C15.e1.u8.transitive props=C15 level=complete tier=quick desc="u8 transitivity"
    #[kani::proof]
    fn vk_c15_u8_laws3() {
        laws3(any_u8(), any_u8(), any_u8());
    }
    //@ id=C15.e1.char.eq_ord_laws props=C15,C09 level=complete tier=quick desc="char laws (pairs), wildcard char excluded"
    #[kani::proof]
    fn vk_c15_char_laws2() {
        laws2(any_char_nw(), any_char_nw());
    }
    //@ id=C15.e1.char.transitive props=C15 level=complete tier=quick desc="char transitivity"
    #[kani::proof]
    fn vk_c15_char_laws3() {
        laws3(any_char_nw(), any_char_nw(), any_char_nw());
    }
    //@ id=C15.e1.complex.eq_ord_laws props=C15,C09 level=complete tier=quick desc="Complex laws (pairs)"
    #[kani::proof]
    fn vk_c15_complex_laws2() {
        laws2(any_complex(), any_complex());
    }
    //@ id=C15.e1.complex.transitive props=C15 level=complete tier=thorough budget=3000 desc="Complex transitivity"
    #[kani::proof]
    fn vk_c15_complex_laws3() {
        laws3(any_complex(), any_complex(), any_complex());
    }

    //@ id=C15.e1.f64.eq_implies_hash_eq props=C15,C16,C05 level=complete tier=quick desc="f64: equal values write identical bytes to the hasher (map-sentinel NaN payloads excluded: see the _sentinels obligation)"
    #[kani::proof]
    fn vk_c15_f64_eq_implies_hash_eq() {
        let a = any_f64_nw();
        let b = any_f64_nw();
        kani::assume(!is_sentinel(a) && !is_sentinel(b));
        if a.array_eq(&b) {
            assert!(h(&a).same(&h(&b)));
        }
    }
    //@ id=C15.e1.f64.eq_implies_hash_eq_sentinels props=C15 level=complete tier=quick desc="f64: the same law when one side is the map EMPTY/TOMBSTONE NaN payload and the other a NaN"
    #[kani::proof]
    fn vk_c15_f64_eq_implies_hash_eq_sentinels() {
        let a = any_f64_nw();
        let b = any_f64_nw();
        kani::assume(is_sentinel(a) || is_sentinel(b));
        if a.array_eq(&b) {
            assert!(h(&a).same(&h(&b)));
        }
    }
    //@ id=C15.e1.u8.eq_implies_hash_eq props=C15 level=complete tier=quick desc="u8: equal values hash alike"
    #[kani::proof]
    fn vk_c15_u8_hash() {
        let a = any_u8();
        let b = any_u8();
        if a.array_eq(&b) {
            assert!(h(&a).same(&h(&b)));
        }
    }
    //@ id=C15.e1.char.eq_implies_hash_eq props=C15 level=complete tier=quick desc="char: equal values hash alike"
    #[kani::proof]
    fn vk_c15_char_hash() {
        let a = any_char_nw();
        let b = any_char_nw();
        if a.array_eq(&b) {
            assert!(h(&a).same(&h(&b)));
        }
    }
    //@ id=C15.e1.complex.eq_implies_hash_eq props=C15 level=complete tier=quick desc="Complex: equal values hash alike (sentinel NaN payloads excluded as for f64)"
    #[kani::proof]
    fn vk_c15_complex_hash() {
        let a = any_complex();
        let b = any_complex();
        kani::assume(!is_sentinel(a.re) && !is_sentinel(a.im) && !is_sentinel(b.re) && !is_sentinel(b.im));
        if a.array_eq(&b) {
            assert!(h(&a).same(&h(&b)));
        }
    }
    //@ id=C15.e1.mixed.u8_f64_agree props=C15,C06,C09 level=complete tier=quick desc="a byte and the float holding the same number are indistinguishable to equality, order and hash (both argument orders)"
    #[kani::proof]
    fn vk_c15_mixed_u8_f64() {
        let a = any_u8();
        let y = any_f64_nw();
        let af = a as f64;
        assert!(ArrayCmp::<f64>::array_cmp(&a, &y) == af.array_cmp(&y));
        assert!(ArrayCmp::<u8>::array_cmp(&y, &a) == y.array_cmp(&af));
        assert!(ArrayCmp::<f64>::array_eq(&a, &y) == af.array_eq(&y));
        assert!(ArrayCmp::<u8>::array_eq(&y, &a) == y.array_eq(&af));
        assert!(h(&a).same(&h(&af)));
        let b = any_u8();
        assert!(a.array_cmp(&b) == af.array_cmp(&(b as f64)));
    }
    //@ id=C15.e1.reach props=C15 level=complete tier=quick expect=fail desc="vacuity guard: wildcard-free generators are satisfiable"
    #[kani::proof]
    fn vk_c15_reach() {
        let _a = any_f64_nw();
        let _c = any_char_nw();
        let _z = any_complex();
        assert!(false);
    }
    //@ id=C15.e1.canary props=C15 level=complete tier=quick expect=fail desc="deliberately false: NaN is the least float"
    #[kani::proof]
    fn vk_c15_f64_canary() {
        let a = anyf();
        let b = anyf();
        kani::assume(a.is_nan() && !b.is_nan());
        assert!(a.array_cmp(&b) == Ordering::Less);
    }

    // ---------------- C15 / C06: arrays on enumerated shapes (bounded) ----------------
    fn arr_u8<const N: usize, const R: usize>(shape: [usize; R]) -> Array<u8> {
        let d: [u8; N] = kani::any();
        Array::new(shape, crate::cowslice::CowSlice::from(d))
    }
    fn hash_arr<T: ArrayValue>(a: &Array<T>) -> Rec {
        let mut r = Rec::new();
        a.hash(&mut r);
        r
    }
    fn pair_laws<T: ArrayValue>(a: &Array<T>, b: &Array<T>) {
        // antisymmetry, 'equal' coincides with ==, equal arrays hash alike
        assert!(a.cmp(b) == b.cmp(a).reverse());
        assert!((a.cmp(b) == Ordering::Equal) == (a == b));
        assert!((a == b) == (b == a));
        if a == b {
            assert!(hash_arr(a).same(&hash_arr(b)));
        }
    }
    fn trans3<T: ArrayValue>(a: &Array<T>, b: &Array<T>, c: &Array<T>) {
        if a.cmp(b) != Ordering::Greater && b.cmp(c) != Ordering::Greater {
            assert!(a.cmp(c) != Ordering::Greater);
        }
    }
    fn total_order3<T: ArrayValue>(a: &Array<T>, b: &Array<T>, c: &Array<T>) {
        pair_laws(a, b);
        trans3(a, b, c);
    }
    //@ id=C15.e1.array.total_order.mixed_rank props=C15,C09 level=bounded tier=quick budget=900 bound="byte arrays of shapes [2], [1,2], [2,1]" desc="Array eq/cmp/hash laws across ranks"
    #[kani::proof]
    #[kani::unwind(12)]
    fn vk_c15_array_mixed_rank() {
        let a = arr_u8::<2, 1>([2]);
        let b = arr_u8::<2, 2>([1, 2]);
        let c = arr_u8::<2, 2>([2, 1]);
        total_order3(&a, &b, &c);
        total_order3(&b, &c, &a);
        total_order3(&c, &a, &b);
    }
    //@ id=C15.e1.array.pair_laws.same_rank_different_shape props=C15,C09 level=bounded tier=quick budget=900 bound="byte arrays of shapes [1,4], [2,1], [2,2], [4,1]" desc="same-rank arrays of different shapes: antisymmetric, never Equal / == (their shapes differ), == symmetric"
    #[kani::proof]
    #[kani::unwind(12)]
    fn vk_c15_array_pairs_diff_shape() {
        let a = arr_u8::<4, 2>([1, 4]);
        let b = arr_u8::<2, 2>([2, 1]);
        let c = arr_u8::<4, 2>([2, 2]);
        let d = arr_u8::<4, 2>([4, 1]);
        pair_laws(&a, &b);
        pair_laws(&b, &c);
        pair_laws(&a, &c);
        pair_laws(&c, &d);
        assert!(a != c && a.cmp(&c) != Ordering::Equal && c != d && c.cmp(&d) != Ordering::Equal);
    }
    //@ id=C15.e1.array.total_order.same_rank_different_shape props=C15 level=bounded tier=quick budget=900 bound="byte arrays of shapes [1,4], [2,1], [2,2]" desc="Array ordering is transitive across same-rank arrays of different shapes"
    #[kani::proof]
    #[kani::unwind(12)]
    fn vk_c15_array_same_rank_diff_shape() {
        let a = arr_u8::<4, 2>([1, 4]);
        let b = arr_u8::<2, 2>([2, 1]);
        let c = arr_u8::<4, 2>([2, 2]);
        trans3(&a, &b, &c);
        trans3(&b, &c, &a);
        trans3(&c, &a, &b);
    }

    // (same-shape total-order and byte-vs-float array harnesses were dropped after measurement: CBMC's bytewise
    //  memcmp of the inline shape needs > 34 unwindings and the float array comparison does not finish in 50 min)

    // ---------------- C17: F64Rep ----------------
    //@ id=C17.e1.f64rep.roundtrip props=C17 level=complete tier=quick
    #[kani::proof]
    fn vk_c17_f64rep_roundtrip() {
        let x = anyf();
        let y: f64 = f64::from(F64Rep::from(x));
        // behaviour-relevant sentinels survive bit-exactly
        if x.to_bits() == WILDCARD_NAN.to_bits()
            || x.to_bits() == EMPTY_NAN.to_bits()
            || x.to_bits() == TOMBSTONE_NAN.to_bits()
        {
            assert!(y.to_bits() == x.to_bits());
        }
        // every non-NaN value (incl. -0, infinities, subnormals) is bit-exact
        if !x.is_nan() {
            assert!(y.to_bits() == x.to_bits());
        } else {
            assert!(y.is_nan());
            // a plain NaN never turns into a sentinel
            if x.to_bits() != WILDCARD_NAN.to_bits() {
                assert!(y.to_bits() != WILDCARD_NAN.to_bits());
            }
            if x.to_bits() != EMPTY_NAN.to_bits() {
                assert!(y.to_bits() != EMPTY_NAN.to_bits());
            }
            if x.to_bits() != TOMBSTONE_NAN.to_bits() {
                assert!(y.to_bits() != TOMBSTONE_NAN.to_bits());
            }
        }
        assert!(x.array_eq(&y));
    }

    // (u8::sort_list — a 256-bucket counting sort — does not finish under CBMC within 15 min even for 4 bytes: undecided)
    // ---------------- C05: flags ----------------
    //@ id=C05.e1.flags.reverse_sorted props=C05 level=complete tier=quick
    #[kani::proof]
    fn vk_c05_flags_reverse_sorted() {
        let bits: u8 = kani::any();
        let f0 = ArrayFlags::from_bits_retain(bits);
        let mut f = f0;
        f.reverse_sorted();
        assert!(f.contains(ArrayFlags::SORTED_UP) == f0.contains(ArrayFlags::SORTED_DOWN));
        assert!(f.contains(ArrayFlags::SORTED_DOWN) == f0.contains(ArrayFlags::SORTED_UP));
        assert!(f.bits() & !ArrayFlags::SORTEDNESS.bits() == bits & !ArrayFlags::SORTEDNESS.bits());
    }
}
