// Contracts on the element-level comparison / hashing / flag / serialised-float
// functions of src/array.rs.  Appended to a scratch copy of the real file.
#[cfg(kani)]
mod verif_kani_array {
    use super::*;
    use std::hash::Hasher;

    /// A hasher that records what is written to it (so that "equal hash" is
    /// "equal byte string written", independent of any hash function).
    pub(crate) struct Rec {
        pub buf: [u8; 40],
        pub n: usize,
    }
    impl Rec {
        pub fn new() -> Self {
            Rec { buf: [0; 40], n: 0 }
        }
        pub fn same(&self, o: &Rec) -> bool {
            self.n == o.n && self.buf == o.buf
        }
    }
    impl Hasher for Rec {
        fn finish(&self) -> u64 {
            0
        }
        fn write(&mut self, bytes: &[u8]) {
            for b in bytes {
                if self.n < 40 {
                    self.buf[self.n] = *b;
                }
                self.n += 1;
            }
        }
    }
    pub(crate) fn h<T: ArrayValue>(x: &T) -> Rec {
        let mut r = Rec::new();
        x.array_hash(&mut r);
        r
    }
    fn anyf() -> f64 {
        f64::from_bits(kani::any())
    }

    // ---------------- C15: f64 ----------------
    //@ id=C15.e1.f64.eq_reflexive props=C15 level=complete tier=quick
    #[kani::proof]
    fn vk_c15_f64_eq_reflexive() {
        let a = anyf();
        assert!(a.array_eq(&a));
        assert!(a.array_cmp(&a) == Ordering::Equal);
    }
    //@ id=C15.e1.f64.cmp_antisymmetric props=C15 level=complete tier=quick
    #[kani::proof]
    fn vk_c15_f64_cmp_antisymmetric() {
        let a = anyf();
        let b = anyf();
        assert!(a.array_cmp(&b) == b.array_cmp(&a).reverse());
        assert!(a.array_eq(&b) == b.array_eq(&a));
        assert!(a.array_eq(&b) == (a.array_cmp(&b) == Ordering::Equal));
    }
    //@ id=C15.e1.f64.eq_implies_hash_eq props=C15 level=complete tier=quick
    #[kani::proof]
    fn vk_c15_f64_eq_implies_hash_eq() {
        let a = anyf();
        let b = anyf();
        kani::assume(!a.has_wildcard() && !b.has_wildcard());
        if a.array_eq(&b) {
            assert!(h(&a).same(&h(&b)));
        }
    }
    //@ id=C15.e1.f64.canary props=C15 level=complete tier=quick expect=fail
    #[kani::proof]
    fn vk_c15_f64_canary() {
        let a = anyf();
        let b = anyf();
        assert!(a.array_cmp(&b) != Ordering::Less);
    }

    // ---------------- C17: F64Rep ----------------
    //@ id=C17.e1.f64rep.roundtrip props=C17 level=complete tier=quick
    #[kani::proof]
    fn vk_c17_f64rep_roundtrip() {
        let x = anyf();
        let y: f64 = f64::from(F64Rep::from(x));
        // behaviour-relevant sentinels survive bit-exactly
        if x.to_bits() == WILDCARD_NAN.to_bits()
            || x.to_bits() == EMPTY_NAN.to_bits()
            || x.to_bits() == TOMBSTONE_NAN.to_bits()
        {
            assert!(y.to_bits() == x.to_bits());
        }
        // every non-NaN value (incl. -0, infinities, subnormals) is bit-exact
        if !x.is_nan() {
            assert!(y.to_bits() == x.to_bits());
        } else {
            assert!(y.is_nan());
            // a plain NaN never turns into a sentinel
            if x.to_bits() != WILDCARD_NAN.to_bits() {
                assert!(y.to_bits() != WILDCARD_NAN.to_bits());
            }
            if x.to_bits() != EMPTY_NAN.to_bits() {
                assert!(y.to_bits() != EMPTY_NAN.to_bits());
            }
            if x.to_bits() != TOMBSTONE_NAN.to_bits() {
                assert!(y.to_bits() != TOMBSTONE_NAN.to_bits());
            }
        }
        assert!(x.array_eq(&y));
    }

    // ---------------- C05: flags ----------------
    //@ id=C05.e1.flags.reverse_sorted props=C05 level=complete tier=quick
    #[kani::proof]
    fn vk_c05_flags_reverse_sorted() {
        let bits: u8 = kani::any();
        let f0 = ArrayFlags::from_bits_retain(bits);
        let mut f = f0;
        f.reverse_sorted();
        assert!(f.contains(ArrayFlags::SORTED_UP) == f0.contains(ArrayFlags::SORTED_DOWN));
        assert!(f.contains(ArrayFlags::SORTED_DOWN) == f0.contains(ArrayFlags::SORTED_UP));
        assert!(f.bits() & !ArrayFlags::SORTEDNESS.bits() == bits & !ArrayFlags::SORTEDNESS.bits());
    }
}
