// Contracts on the slice-level rotate kernel of src/algorithm/dyadic/mod.rs (C08, C09).
#[cfg(kani)]
mod verif_kani_rotate {
    use super::*;

    /// documented: `↻ n xs` moves every row n places towards the front, wrapping around
    fn src_index(k: usize, by: isize, n: usize) -> usize {
        (((k as i128 + by as i128) % n as i128 + n as i128) % n as i128) as usize
    }

    //@ id=C08.e1.rotate.rank1_len3 props=C08,C09 level=bounded tier=quick budget=600 bound="shape [3], any amount" desc="rotate kernel, rank 1: result[k] = input[(k + n) mod len] for EVERY isize amount (negative and huge included); no overflow"
    #[kani::proof]
    #[kani::unwind(8)]
    fn vk_c08_rotate_rank1() {
        let input: [u8; 3] = kani::any();
        let by: isize = kani::any();
        let mut data = input;
        rotate(&[by], &[3], &mut data);
        let mut k = 0;
        while k < 3 {
            assert!(data[k] == input[src_index(k, by, 3)]);
            k += 1;
        }
    }
    //@ id=C08.e1.rotate.rank2_2x3 props=C08,C09 level=bounded tier=quick budget=900 bound="shape [2,3], any amounts" desc="rotate kernel, rank 2 with one amount per axis: result[i][j] = input[(i+a) mod 2][(j+b) mod 3]; a rotation of 0 (or a multiple of the length) on the leading axis still rotates the inner axis"
    #[kani::proof]
    #[kani::unwind(8)]
    fn vk_c08_rotate_rank2() {
        let input: [u8; 6] = kani::any();
        let a: isize = kani::any();
        let b: isize = kani::any();
        let mut data = input;
        rotate(&[a, b], &[2, 3], &mut data);
        let mut i = 0;
        while i < 2 {
            let mut j = 0;
            while j < 3 {
                assert!(data[i * 3 + j] == input[src_index(i, a, 2) * 3 + src_index(j, b, 3)]);
                j += 1;
            }
            i += 1;
        }
    }
    //@ id=C08.e1.rotate.rank2_leading_only props=C08,C09 level=bounded tier=quick budget=900 bound="shape [3,2], one amount" desc="rotate kernel with fewer amounts than axes rotates whole rows"
    #[kani::proof]
    #[kani::unwind(8)]
    fn vk_c08_rotate_rows() {
        let input: [u8; 6] = kani::any();
        let a: isize = kani::any();
        let mut data = input;
        rotate(&[a], &[3, 2], &mut data);
        let mut i = 0;
        while i < 3 {
            assert!(data[i * 2] == input[src_index(i, a, 3) * 2] && data[i * 2 + 1] == input[src_index(i, a, 3) * 2 + 1]);
            i += 1;
        }
    }
}
