//! E3 family `frames`: the scoped run-time state of the interpreter (src/run.rs): call frames
//! (`call`, `call_with_span`, `exec_with_span`, `exec_with_frame_span`), fill scopes
//! (`with_fill`, `with_unfill`, `without_fill`), and the reset of the runtime after a failed
//! run (`run_asm`), together with `struct Runtime`, its `Default` and `struct StackFrame`,
//! all cut verbatim, over a scripted `exec`.
#![allow(dead_code, unused_variables, unused_mut, unused_imports, unreachable_code, clippy::all)]
/// R3: error text is not under contract
#[macro_export]
macro_rules! format {
    ($($t:tt)*) => {
        String::new()
    };
}
pub mod shim;
pub use shim::*;
mod extracted;
pub use extracted::*;
#[cfg(kani)]
mod harness;
