//! Shim: the types `Runtime` and the frame functions mention, reduced to what those
//! functions touch.  `Uiua::exec` is a scripted model: executing node `k` first performs the
//! scripted nested action (a call, or a fill scope, through the REAL extracted functions),
//! records what the hidden state looks like at that moment, then pops / pushes according to
//! its script and fails if scripted to.
pub use std::mem::take;
pub use std::path::PathBuf;
pub use std::sync::Arc;
use std::ops::Index;

use crate::extracted::*;

#[derive(Debug, Clone, Copy, Default, PartialEq, Eq)]
pub struct Value(pub u8);
#[derive(Debug, Clone, Default, PartialEq, Eq)]
pub struct FillFrame {
    pub values: Vec<Value>,
}
impl From<Value> for FillFrame {
    fn from(v: Value) -> Self {
        FillFrame { values: vec![v] }
    }
}
#[derive(Debug, Clone, Copy, PartialEq, Eq)]
pub enum FunctionId {
    Main,
    Named(u8),
}
impl std::fmt::Display for FunctionId {
    fn fmt(&self, _f: &mut std::fmt::Formatter<'_>) -> std::fmt::Result {
        Ok(())
    }
}
#[derive(Debug, Clone, Copy, PartialEq, Eq)]
pub struct Primitive;
#[derive(Debug, Clone, Copy, Default, PartialEq, Eq)]
pub struct Signature {
    pub a: u16,
    pub o: u16,
}
impl Signature {
    pub fn args(&self) -> usize {
        self.a as usize
    }
    pub fn outputs(&self) -> usize {
        self.o as usize
    }
}
impl std::fmt::Display for Signature {
    fn fmt(&self, _f: &mut std::fmt::Formatter<'_>) -> std::fmt::Result {
        Ok(())
    }
}
#[derive(Debug, Clone, Copy, PartialEq, Eq)]
pub struct Span(pub usize);
#[derive(Debug, Clone, Copy, PartialEq, Eq)]
pub struct TraceFrame {
    pub id: Option<FunctionId>,
    pub span: Span,
}
pub const MAXTRACE: usize = 4;
#[derive(Debug, Default, Clone)]
pub struct ErrMeta {
    pub trace: Trace,
}
/// the error's trace (a Vec in src/error.rs), fixed capacity
#[derive(Debug, Default, Clone)]
pub struct Trace {
    pub items: [Option<TraceFrame>; MAXTRACE],
    pub len: usize,
}
impl Trace {
    pub fn push(&mut self, f: TraceFrame) {
        self.items[self.len] = Some(f);
        self.len += 1;
    }
    pub fn clear(&mut self) {
        self.len = 0;
    }
}
#[derive(Debug, Default, Clone)]
pub struct UiuaError {
    pub meta: ErrMeta,
    /// src/error.rs track_caller: the error's own span is replaced by the caller's
    pub span_override: Option<Span>,
}
impl UiuaError {
    pub fn track_caller(&mut self, new_span: impl Into<Span>) {
        self.meta.trace.clear();
        self.span_override = Some(new_span.into());
    }
}
pub type UiuaResult<T = ()> = Result<T, UiuaError>;
#[derive(Debug, Clone, Default, PartialEq, Eq)]
pub struct Report(pub u8);
#[derive(Debug, Clone, Copy, PartialEq, Eq)]
pub struct Node(pub usize);
#[derive(Debug, Clone, Copy)]
pub struct SigNode {
    pub node: Node,
    pub sig: Signature,
}
#[derive(Clone)]
pub struct Function {
    pub id: FunctionId,
    pub sig: Signature,
    pub index: usize,
}
pub struct Assembly {
    pub functions: [Node; MAXN],
    pub spans: [Span; 8],
}
impl Index<&Function> for Assembly {
    type Output = Node;
    fn index(&self, f: &Function) -> &Node {
        &self.functions[f.index]
    }
}
/// stand-ins for container / system types held by `Runtime` (never inspected by the code under contract)
#[derive(Debug, Clone, Default, PartialEq, Eq)]
pub struct EcoVec<T>(pub Vec<T>);
impl<T> EcoVec<T> {
    pub fn new() -> Self {
        EcoVec(Vec::new())
    }
}
impl<T> std::ops::Deref for EcoVec<T> {
    type Target = Vec<T>;
    fn deref(&self) -> &Vec<T> {
        &self.0
    }
}
impl<T> std::ops::DerefMut for EcoVec<T> {
    fn deref_mut(&mut self) -> &mut Vec<T> {
        &mut self.0
    }
}
#[derive(Debug, Clone, PartialEq, Eq)]
pub struct HashMap<K, V>(pub Vec<(K, V)>);
impl<K, V> HashMap<K, V> {
    pub fn new() -> Self {
        HashMap(Vec::new())
    }
    pub fn clear(&mut self) {
        self.0.clear()
    }
    pub fn len(&self) -> usize {
        self.0.len()
    }
    pub fn is_empty(&self) -> bool {
        self.0.is_empty()
    }
}
impl<K, V> Default for HashMap<K, V> {
    fn default() -> Self {
        HashMap(Vec::new())
    }
}
pub trait SysBackend {
    fn token(&self) -> u8;
}
#[derive(Default)]
pub struct SafeSys;
impl SysBackend for SafeSys {
    fn token(&self) -> u8 {
        0
    }
}
pub struct OtherSys(pub u8);
impl SysBackend for OtherSys {
    fn token(&self) -> u8 {
        self.0
    }
}
pub struct Mutex<T>(pub T);
impl<T> Mutex<T> {
    pub fn new(t: T) -> Self {
        Mutex(t)
    }
}
pub struct ThreadPool;
#[derive(Debug, Clone, Default, PartialEq, Eq)]
pub struct ThisThread(pub u8);
pub struct ThreadLocal<T>(pub Option<T>);
impl<T> ThreadLocal<T> {
    pub fn new() -> Self {
        ThreadLocal(None)
    }
}
pub use std::cell::RefCell;
pub type MemoMap = HashMap<Node, HashMap<Vec<Value>, Vec<Value>>>;

// ---------------------------------------------------------------- scripted exec
pub const MAXN: usize = 4;
#[derive(Debug, Clone, Copy, Default, PartialEq, Eq)]
pub enum Nested {
    #[default]
    None,
    /// call function `i` through the real `Uiua::call`
    Call(usize),
    /// run node `i` inside the real `with_fill`
    WithFill(usize),
    /// run node `i` inside the real `with_unfill`
    WithUnfill(usize),
    /// run node `i` inside the real `without_fill`
    WithoutFill(usize),
    /// run node `i` through the real `exec_with_span`
    ExecSpan(usize),
}
#[derive(Debug, Clone, Copy, Default)]
pub struct Behav {
    pub nested: Nested,
    pub pops: usize,
    pub pushes: usize,
    pub fail: bool,
}
/// what the hidden state looked like when node `k` started its own work
#[derive(Debug, Clone, Copy, Default)]
pub struct Seen {
    pub ran: bool,
    pub call_depth: usize,
    pub top_sig: Signature,
    pub top_call_span: usize,
    pub top_start_height: usize,
    pub fill_len: usize,
    pub unfill_len: usize,
    pub boundary_len: usize,
    pub boundary_top: (usize, usize),
    pub stack_len: usize,
}
pub struct Uiua {
    pub rt: Runtime,
    pub asm: Assembly,
    pub behav: [Behav; MAXN],
    pub funcs: [Function; MAXN],
    pub seen: [Seen; MAXN],
}
impl Uiua {
    pub fn stack(&self) -> &[Value] {
        &self.rt.stack
    }
    pub fn exec(&mut self, node: Node) -> UiuaResult {
        let k = node.0;
        let b = self.behav[k];
        match b.nested {
            Nested::None => {}
            Nested::Call(i) => {
                let f = self.funcs[i].clone();
                self.call(&f)?
            }
            Nested::WithFill(i) => self.with_fill(Value(9), |env| env.exec(Node(i)))?,
            Nested::WithUnfill(i) => self.with_unfill(Value(9), |env| env.exec(Node(i)))?,
            Nested::WithoutFill(i) => self.without_fill(|env| env.exec(Node(i)))?,
            Nested::ExecSpan(i) => {
                let sig = Signature { a: self.behav[i].pops as u16, o: self.behav[i].pushes as u16 };
                self.exec_with_span(SigNode { node: Node(i), sig }, 1)?
            }
        }
        let top = self.rt.call_stack.last().cloned().unwrap_or_default();
        self.seen[k] = Seen {
            ran: true,
            call_depth: self.rt.call_stack.len(),
            top_sig: top.sig,
            top_call_span: top.call_span,
            top_start_height: top.start_height,
            fill_len: self.rt.fill_stack.len(),
            unfill_len: self.rt.unfill_stack.len(),
            boundary_len: self.rt.fill_boundary_stack.len(),
            boundary_top: self.rt.fill_boundary_stack.last().copied().unwrap_or((usize::MAX, usize::MAX)),
            stack_len: self.rt.stack.len(),
        };
        let mut i = 0;
        while i < b.pops {
            self.rt.stack.pop();
            i += 1;
        }
        if b.fail {
            return Err(UiuaError::default());
        }
        let mut i = 0;
        while i < b.pushes {
            self.rt.stack.push(Value(100 + i as u8));
            i += 1;
        }
        Ok(())
    }
}
