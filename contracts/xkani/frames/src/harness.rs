//! C11 (scoped state unwinds on error: call depth, fill setting, fill boundary are what they
//! were), C02/C07 (a call consumes / produces what its signature says; values beneath are
//! untouched), C09 (no panic for signature-respecting bodies).
use crate::*;

fn func(i: usize, a: usize, o: usize) -> Function {
    Function { id: FunctionId::Named(i as u8), sig: Signature { a: a as u16, o: o as u16 }, index: i }
}
/// An interpreter in an arbitrary mid-execution state: `nstack` values, `nfill` fill frames, `nunfill` unfill
/// frames, `nbound` boundaries and `nframes` frames above Main.  Node `i` is the body of function `i`.
fn mk(nstack: usize, nfill: usize, nunfill: usize, nbound: usize, nframes: usize, behav: [Behav; MAXN]) -> Uiua {
    let mut rt = Runtime::default();
    let vals: [u8; 4] = kani::any();
    let mut i = 0;
    while i < nstack {
        rt.stack.push(Value(vals[i]));
        i += 1;
    }
    let mut i = 0;
    while i < nfill {
        rt.fill_stack.push(FillFrame { values: vec![Value(kani::any())] });
        i += 1;
    }
    let mut i = 0;
    while i < nunfill {
        rt.unfill_stack.push(FillFrame { values: vec![Value(kani::any())] });
        i += 1;
    }
    let mut i = 0;
    while i < nbound {
        rt.fill_boundary_stack.push((kani::any(), kani::any()));
        i += 1;
    }
    let mut i = 0;
    while i < nframes {
        let cs: usize = kani::any();
        kani::assume(cs < 8);
        let mut fr = StackFrame { id: Some(FunctionId::Named(50 + i as u8)), call_span: cs, start_height: kani::any(), ..Default::default() };
        if kani::any() {
            let s: usize = kani::any();
            kani::assume(s < 8);
            fr.spans.push((s, None));
        }
        rt.call_stack.push(fr);
        i += 1;
    }
    let funcs = [
        func(0, behav[0].pops, behav[0].pushes),
        func(1, behav[1].pops, behav[1].pushes),
        func(2, behav[2].pops, behav[2].pushes),
        func(3, behav[3].pops, behav[3].pushes),
    ];
    Uiua {
        rt,
        asm: Assembly { functions: [Node(0), Node(1), Node(2), Node(3)], spans: [Span(10), Span(11), Span(12), Span(13), Span(14), Span(15), Span(16), Span(17)] },
        behav,
        funcs,
        seen: [Seen::default(); MAXN],
    }
}
#[derive(Clone)]
struct Snap {
    frames: Vec<StackFrame>,
    fill: Vec<FillFrame>,
    unfill: Vec<FillFrame>,
    bound: Vec<(usize, usize)>,
    stack: Vec<Value>,
}
fn snap(e: &Uiua) -> Snap {
    Snap {
        frames: e.rt.call_stack.clone(),
        fill: e.rt.fill_stack.clone(),
        unfill: e.rt.unfill_stack.clone(),
        bound: e.rt.fill_boundary_stack.clone(),
        stack: e.rt.stack.clone(),
    }
}
fn same_frame(a: &StackFrame, b: &StackFrame) -> bool {
    a.sig == b.sig && a.id == b.id && a.track_caller == b.track_caller && a.call_span == b.call_span && a.start_height == b.start_height
        && a.spans.len() == b.spans.len()
        && (a.spans.is_empty() || a.spans[0] == b.spans[0])
}
/// the hidden context, fill setting and call depth are what they were
fn hidden_restored(e: &Uiua, s: &Snap) -> bool {
    if e.rt.call_stack.len() != s.frames.len() || e.rt.fill_stack.len() != s.fill.len()
        || e.rt.unfill_stack.len() != s.unfill.len() || e.rt.fill_boundary_stack.len() != s.bound.len()
    {
        return false;
    }
    let mut i = 0;
    while i < s.frames.len() {
        if !same_frame(&e.rt.call_stack[i], &s.frames[i]) {
            return false;
        }
        i += 1;
    }
    let mut i = 0;
    while i < s.fill.len() {
        if e.rt.fill_stack[i] != s.fill[i] {
            return false;
        }
        i += 1;
    }
    let mut i = 0;
    while i < s.unfill.len() {
        if e.rt.unfill_stack[i] != s.unfill[i] {
            return false;
        }
        i += 1;
    }
    let mut i = 0;
    while i < s.bound.len() {
        if e.rt.fill_boundary_stack[i] != s.bound[i] {
            return false;
        }
        i += 1;
    }
    true
}
fn beneath_untouched(e: &Uiua, s: &Snap, consumed: usize) -> bool {
    let keep = s.stack.len() - consumed;
    if e.rt.stack.len() < keep {
        return false;
    }
    let mut i = 0;
    while i < keep {
        if e.rt.stack[i] != s.stack[i] {
            return false;
        }
        i += 1;
    }
    true
}
fn leaf(pops: usize, pushes: usize) -> Behav {
    Behav { nested: Nested::None, pops, pushes, fail: kani::any() }
}

/// `call` of a function whose body is a leaf with signature |a.o
fn ck_call_leaf(a: usize, o: usize, nfill: usize, nunfill: usize, nbound: usize, nframes: usize) {
    let mut b = [Behav::default(); MAXN];
    b[0] = leaf(a, o);
    let mut e = mk(3, nfill, nunfill, nbound, nframes, b);
    let s = snap(&e);
    let expect_span = e.span_index();
    // span_index is the innermost frame's last extra span, or else its call span
    let top = &s.frames[s.frames.len() - 1];
    assert!(expect_span == if top.spans.is_empty() { top.call_span } else { top.spans[top.spans.len() - 1].0 });
    let f = e.funcs[0].clone();
    let res = e.call(&f);
    // what the body saw
    let seen = e.seen[0];
    assert!(seen.ran);
    assert!(seen.call_depth == s.frames.len() + 1);
    assert!(seen.top_sig == f.sig && seen.top_call_span == expect_span && seen.top_start_height == 3);
    assert!(seen.boundary_len == s.bound.len() + 1 && seen.boundary_top == (nfill, nunfill));
    assert!(seen.fill_len == nfill && seen.unfill_len == nunfill && seen.stack_len == 3);
    // afterwards, success or failure
    assert!(hidden_restored(&e, &s));
    assert!(beneath_untouched(&e, &s, a));
    match res {
        Ok(()) => {
            assert!(!b[0].fail);
            assert!(e.rt.stack.len() == 3 - a + o);
        }
        Err(_) => assert!(b[0].fail),
    }
}
//@ id=C11.e3.frames.call_leaf.1_2 props=C11,C02,C07,C09 level=bounded tier=quick budget=900 bound="|1.2 body, 3 values, 1 fill + 1 unfill frame, 1 boundary, 1 caller frame" desc="call: the body runs one frame deeper with its own signature and call span and an opaque fill boundary; afterwards (success or failure) call stack, fill, unfill and boundary stacks are what they were"
#[kani::proof]
#[kani::unwind(6)]
fn h_call_leaf_1_2() {
    ck_call_leaf(1, 2, 1, 1, 1, 1);
}
//@ id=C11.e3.frames.call_leaf.2_0 props=C11,C02,C07,C09 level=bounded tier=quick budget=900 bound="|2.0 body, 3 values, 2 fill frames, no boundary, no caller frame" desc="the same at top level with a consuming body"
#[kani::proof]
#[kani::unwind(6)]
fn h_call_leaf_2_0() {
    ck_call_leaf(2, 0, 2, 0, 0, 0);
}
//@ id=C11.e3.frames.call_leaf.0_1 props=C11,C02,C07,C09 level=bounded tier=quick budget=900 bound="|0.1 body, 3 values, no fill, 2 boundaries, 2 caller frames" desc="the same two frames deep with a producing body"
#[kani::proof]
#[kani::unwind(6)]
fn h_call_leaf_0_1() {
    ck_call_leaf(0, 1, 0, 0, 2, 2);
}

/// function 0 calls function 1, whose body opens a fill scope around a leaf; each of the three levels may fail
fn ck_nested(scope: Nested) {
    let mut b = [Behav::default(); MAXN];
    b[0] = Behav { nested: Nested::Call(1), pops: 1, pushes: 1, fail: kani::any() };
    b[1] = Behav { nested: scope, pops: 0, pushes: 1, fail: kani::any() };
    b[2] = leaf(1, 1);
    // signatures as seen from outside: f1 = leaf then +1; f0 = f1 then 1 -> 1
    let mut e = mk(2, 1, 0, 0, 0, b);
    e.funcs[1].sig = Signature { a: 1, o: 2 };
    e.funcs[0].sig = Signature { a: 1, o: 2 };
    let s = snap(&e);
    let f = e.funcs[0].clone();
    let res = e.call(&f);
    assert!(e.seen[2].ran);
    assert!(e.seen[2].call_depth == 3);
    match scope {
        Nested::WithFill(_) => assert!(e.seen[2].fill_len == 2 && e.seen[2].unfill_len == 0 && e.seen[2].boundary_len == 2),
        Nested::WithUnfill(_) => assert!(e.seen[2].fill_len == 1 && e.seen[2].unfill_len == 1 && e.seen[2].boundary_len == 2),
        Nested::WithoutFill(_) => assert!(e.seen[2].fill_len == 1 && e.seen[2].boundary_len == 3 && e.seen[2].boundary_top == (1, 0)),
        _ => {}
    }
    // inside function 1 the caller's fill is hidden: the boundary pushed by its call sits at the fill height
    assert!(!e.seen[1].ran || (e.seen[1].boundary_top == (1, 0) && e.seen[1].fill_len == 1 && e.seen[1].call_depth == 3));
    assert!(hidden_restored(&e, &s));
    assert!(beneath_untouched(&e, &s, 1));
    match res {
        Ok(()) => assert!(!b[0].fail && !b[1].fail && !b[2].fail && e.rt.stack.len() == 3),
        Err(_) => assert!(b[0].fail || b[1].fail || b[2].fail),
    }
}
//@ id=C11.e3.frames.nested.with_fill props=C11,C09 level=bounded tier=quick budget=900 bound="2 nested calls around with_fill around a leaf; failure possible at each of the 3 levels" desc="a failure at any depth of call(call(with_fill(leaf))) leaves call depth, fill setting and boundaries as before the outer call; the fill is visible inside the scope"
#[kani::proof]
#[kani::unwind(6)]
fn h_nested_with_fill() {
    ck_nested(Nested::WithFill(2));
}
//@ id=C11.e3.frames.nested.with_unfill props=C11,C09 level=bounded tier=quick budget=900 bound="as above with with_unfill" desc="the same for the unfill scope"
#[kani::proof]
#[kani::unwind(6)]
fn h_nested_with_unfill() {
    ck_nested(Nested::WithUnfill(2));
}
//@ id=C11.e3.frames.nested.without_fill props=C11,C09 level=bounded tier=quick budget=900 bound="as above with without_fill" desc="the same for the scope that hides the fill"
#[kani::proof]
#[kani::unwind(6)]
fn h_nested_without_fill() {
    ck_nested(Nested::WithoutFill(2));
}

//@ id=C11.e3.frames.scopes_direct props=C11,C09 level=bounded tier=quick budget=900 bound="1 fill, 1 unfill, 1 boundary at entry; leaf body that may fail" desc="with_fill / with_unfill / without_fill: the body sees exactly one more frame (the given value on top); afterwards, success or failure, all three stacks are what they were and the body's result is passed through"
#[kani::proof]
#[kani::unwind(6)]
fn h_scopes_direct() {
    let mut b = [Behav::default(); MAXN];
    b[0] = leaf(1, 1);
    let which: u8 = kani::any();
    let mut e = mk(2, 1, 1, 1, 1, b);
    let s = snap(&e);
    let v: u8 = kani::any();
    let res = match which {
        0 => e.with_fill(Value(v), |env| {
            assert!(env.rt.fill_stack.len() == 2 && env.rt.fill_stack[1].values[0] == Value(v) && env.rt.unfill_stack.len() == 1);
            env.exec(Node(0))
        }),
        1 => e.with_unfill(Value(v), |env| {
            assert!(env.rt.unfill_stack.len() == 2 && env.rt.unfill_stack[1].values[0] == Value(v) && env.rt.fill_stack.len() == 1);
            env.exec(Node(0))
        }),
        _ => e.without_fill(|env| {
            assert!(env.rt.fill_boundary_stack.len() == 2 && env.rt.fill_boundary_stack[1] == (1, 1));
            env.exec(Node(0))
        }),
    };
    assert!(e.seen[0].ran);
    assert!(hidden_restored(&e, &s));
    assert!(res.is_err() == b[0].fail);
}

//@ id=C11.e3.frames.exec_with_span props=C11,C02,C09 level=bounded tier=quick budget=900 bound="|2.1 leaf, 3 values, 1 fill, 1 boundary, 1 caller frame" desc="exec_with_span: a frame with the node's signature and the given call span for the duration of the body, no fill boundary; restored on success and failure"
#[kani::proof]
#[kani::unwind(6)]
fn h_exec_with_span() {
    let mut b = [Behav::default(); MAXN];
    b[0] = leaf(2, 1);
    let mut e = mk(3, 1, 0, 1, 1, b);
    let s = snap(&e);
    let cs: usize = kani::any();
    kani::assume(cs < 8);
    let sig = Signature { a: 2, o: 1 };
    let res = e.exec_with_span(SigNode { node: Node(0), sig }, cs);
    let seen = e.seen[0];
    assert!(seen.ran && seen.call_depth == 3 && seen.top_sig == sig && seen.top_call_span == cs && seen.top_start_height == 3);
    assert!(seen.boundary_len == 1 && seen.fill_len == 1);
    assert!(hidden_restored(&e, &s));
    assert!(beneath_untouched(&e, &s, 2));
    match res {
        Ok(()) => assert!(!b[0].fail && e.rt.stack.len() == 2),
        Err(_) => assert!(b[0].fail),
    }
}

//@ id=C11.e3.frames.wrong_height_detected props=C02,C11 level=bounded tier=quick budget=600 bound="|1.1 frame around a body that pops 1 and pushes 2" desc="a body that changes the stack by something other than what the frame's signature says is detected when the frame ends (a panic in debug builds, which run/compile containment reports)"
#[kani::proof]
#[kani::unwind(6)]
#[kani::should_panic]
fn h_wrong_height_detected() {
    let mut b = [Behav::default(); MAXN];
    b[0] = Behav { nested: Nested::None, pops: 1, pushes: 2, fail: false };
    let mut e = mk(2, 0, 0, 0, 0, b);
    let _ = e.exec_with_span(SigNode { node: Node(0), sig: Signature { a: 1, o: 1 } }, 0);
}

//@ id=C11.e3.frames.reset_after_failed_run props=C11,C09 level=bounded tier=quick budget=900 bound="2 stack values, 1 under value, 1 extra frame, 1 fill / unfill / boundary, 1 local, 1 recursion point" desc="run_asm's reset after a failed run: every scoped structure (under stack, call stack, locals, recursion points, fill / unfill / boundary stacks) is what a fresh runtime has, while the session's configuration and results (backend, execution limit, instruction timing, command-line arguments, output comments, reports, the value stack) are kept; after a successful run nothing is touched"
#[kani::proof]
#[kani::unwind(6)]
fn h_reset_after_failed_run() {
    let b = [Behav::default(); MAXN];
    let mut e = mk(2, 1, 1, 1, 1, b);
    e.rt.under_stack.push(Value(kani::any()));
    e.rt.local_stack.0.push((0, Value(1)));
    e.rt.recur_stack.push(kani::any());
    e.rt.test_results.push(Ok(()));
    e.rt.thread = ThisThread(kani::any());
    e.rt.unevaluated_constants.0.push((1, Node(1)));
    let tok: u8 = kani::any();
    e.rt.backend = Arc::new(OtherSys(tok));
    let lim: Option<f64> = if kani::any() { Some(5000.0) } else { None };
    e.rt.execution_limit = lim;
    let ti: bool = kani::any();
    e.rt.time_instrs = ti;
    e.rt.cli_arguments.push(String::new());
    e.rt.output_comments.0.push((3, Vec::new()));
    e.rt.reports.push(Report(kani::any()));
    let reports0 = e.rt.reports.clone();
    let s = snap(&e);
    let failed: bool = kani::any();
    let res: UiuaResult = if failed { Err(UiuaError::default()) } else { Ok(()) };
    e.reset_after_run(&res);
    // kept in both cases
    assert!(e.rt.backend.token() == tok);
    assert!(e.rt.execution_limit == lim);
    assert!(e.rt.time_instrs == ti);
    assert!(e.rt.cli_arguments.len() == 1);
    assert!(e.rt.output_comments.0.len() == 1);
    assert!(e.rt.reports == reports0);
    assert!(beneath_untouched(&e, &s, 0) && e.rt.stack.len() == 2);
    if failed {
        let fresh = Runtime::default();
        assert!(e.rt.under_stack.is_empty());
        assert!(e.rt.call_stack.len() == 1 && same_frame(&e.rt.call_stack[0], &fresh.call_stack[0]));
        assert!(e.rt.call_stack[0].id == Some(FunctionId::Main));
        assert!(e.rt.local_stack.0.is_empty() && e.rt.recur_stack.is_empty());
        assert!(e.rt.fill_stack.is_empty() && e.rt.unfill_stack.is_empty() && e.rt.fill_boundary_stack.is_empty());
        // (pending test results, the thread handle, unevaluated constants and the recursion limit are also reset by
        //  the current code; C11 does not speak about them and they are left out of the contract)
    } else {
        assert!(hidden_restored(&e, &s) && e.rt.under_stack.len() == 1 && e.rt.local_stack.0.len() == 1);
    }
}

//@ id=C11.e3.frames.canary props=C11 level=bounded tier=quick expect=fail budget=600 desc="deliberately false: the body of a called function runs at the caller's call depth"
#[kani::proof]
#[kani::unwind(6)]
fn h_frames_canary() {
    let mut b = [Behav::default(); MAXN];
    b[0] = Behav { nested: Nested::None, pops: 0, pushes: 0, fail: false };
    let mut e = mk(1, 0, 0, 0, 0, b);
    let f = e.funcs[0].clone();
    let _ = e.call(&f);
    assert!(e.seen[0].call_depth == 1);
}
