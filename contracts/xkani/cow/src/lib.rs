//! E3 family `cow`: src/cowslice.rs, verbatim (minus serde impls, the `cowslice!`
//! macro and the #[test] fns — listed in the extraction report), compiled against
//! a model of `ecow::EcoVec`.
#![allow(dead_code, unused_variables, unused_mut, unused_imports, clippy::all)]
pub mod shim;
mod extracted;
pub use extracted::*;
#[cfg(kani)]
mod harness;
#[cfg(kani)]
mod harness_gen;
