//! Model of `ecow::EcoVec<T>`: a reference-counted vector with copy-on-write
//! `make_mut`.  ASSUMPTION (documented ecow behaviour, not verified):
//! `is_unique` <=> no other handle to the buffer exists; every mutating method
//! first makes the buffer unique by cloning it when it is shared.
use std::ops::Deref;
use std::ptr;
use std::rc::Rc;

pub struct EcoVec<T> {
    inner: Option<Rc<Vec<T>>>,
}
impl<T> EcoVec<T> {
    pub const fn new() -> Self {
        Self { inner: None }
    }
    pub fn with_capacity(c: usize) -> Self {
        Self { inner: Some(Rc::new(Vec::with_capacity(c))) }
    }
    pub fn len(&self) -> usize {
        self.inner.as_ref().map_or(0, |v| v.len())
    }
    pub fn capacity(&self) -> usize {
        self.inner.as_ref().map_or(0, |v| v.capacity())
    }
    pub fn is_unique(&mut self) -> bool {
        self.inner.as_ref().map_or(true, |v| Rc::strong_count(v) == 1)
    }
    pub fn as_ptr(&self) -> *const T {
        self.inner.as_ref().map_or(ptr::null(), |v| v.as_ptr())
    }
}
impl<T: Clone> EcoVec<T> {
    fn vec_mut(&mut self) -> &mut Vec<T> {
        Rc::make_mut(self.inner.get_or_insert_with(|| Rc::new(Vec::new())))
    }
    pub fn from_elem(e: T, n: usize) -> Self {
        Self { inner: Some(Rc::new(vec![e; n])) }
    }
    pub fn make_mut(&mut self) -> &mut [T] {
        self.vec_mut().as_mut_slice()
    }
    pub fn truncate(&mut self, n: usize) {
        if n < self.len() {
            self.vec_mut().truncate(n)
        }
    }
    pub fn extend_from_slice(&mut self, s: &[T]) {
        self.vec_mut().extend_from_slice(s)
    }
    pub fn reserve(&mut self, n: usize) {
        self.vec_mut().reserve(n)
    }
    pub fn clear(&mut self) {
        self.vec_mut().clear()
    }
    pub fn push(&mut self, v: T) {
        self.vec_mut().push(v)
    }
    pub unsafe fn extend_from_trusted<I: IntoIterator<Item = T>>(&mut self, it: I)
    where
        I::IntoIter: ExactSizeIterator,
    {
        self.vec_mut().extend(it)
    }
}
impl<T> Clone for EcoVec<T> {
    fn clone(&self) -> Self {
        Self { inner: self.inner.clone() }
    }
}
impl<T> Deref for EcoVec<T> {
    type Target = [T];
    fn deref(&self) -> &[T] {
        match &self.inner {
            Some(v) => v,
            None => &[],
        }
    }
}
impl<T: Clone> From<&[T]> for EcoVec<T> {
    fn from(s: &[T]) -> Self {
        Self { inner: Some(Rc::new(s.to_vec())) }
    }
}
impl<T: Clone, const N: usize> From<[T; N]> for EcoVec<T> {
    fn from(s: [T; N]) -> Self {
        Self { inner: Some(Rc::new(s.to_vec())) }
    }
}
impl<T: Clone> IntoIterator for EcoVec<T> {
    type Item = T;
    type IntoIter = std::vec::IntoIter<T>;
    fn into_iter(self) -> Self::IntoIter {
        self.to_vec().into_iter()
    }
}
impl<T: Clone> Extend<T> for EcoVec<T> {
    fn extend<I: IntoIterator<Item = T>>(&mut self, iter: I) {
        self.vec_mut().extend(iter)
    }
}
impl<T: Clone> FromIterator<T> for EcoVec<T> {
    fn from_iter<I: IntoIterator<Item = T>>(iter: I) -> Self {
        Self { inner: Some(Rc::new(iter.into_iter().collect())) }
    }
}

/// src/context.rs FillValue / parser SubSide, cut down to what cowslice.rs uses
#[derive(Debug, Clone, Copy, PartialEq, Eq)]
pub enum SubSide {
    Left,
    Right,
}
#[derive(Debug, Clone, Copy)]
pub struct FillValue<T> {
    pub value: T,
    pub side: Option<SubSide>,
}
impl<T> FillValue<T> {
    pub fn is_left(&self) -> bool {
        self.side == Some(SubSide::Left)
    }
}
