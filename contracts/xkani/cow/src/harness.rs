//! Copy-on-write contracts for CowSlice (C06).  Abstract view of a handle:
//! `view(s) = data[start..end]`.  For every mutator m, in every storage
//! situation of the handle
//!   0 fresh          unique buffer, window = whole buffer
//!   1 shared         another live handle to the same whole buffer
//!   2 shared window  window (1..3) of a buffer another handle still holds
//!   3 unique window  window (1..4) of a buffer nobody else holds any more
//! the contract is  view(s') == spec_m(view(s))  (independent of the situation)
//! and the other handle's view is unchanged.
use crate::shim::*;
use crate::*;

fn same(a: &[u8], b: &[u8]) -> bool {
    if a.len() != b.len() {
        return false;
    }
    let mut i = 0;
    while i < a.len() {
        if a[i] != b[i] {
            return false;
        }
        i += 1;
    }
    true
}
fn cat(parts: &[&[u8]]) -> Vec<u8> {
    let mut v = Vec::new();
    for p in parts {
        for x in p.iter() {
            v.push(*x);
        }
    }
    v
}
fn rep(s: &[u8], n: usize) -> Vec<u8> {
    let mut v = Vec::new();
    let mut i = 0;
    while i < n {
        for x in s {
            v.push(*x);
        }
        i += 1;
    }
    v
}

struct Sit {
    s: CowSlice<u8>,
    other: Option<CowSlice<u8>>,
    view: Vec<u8>,
    other_view: Vec<u8>,
}
fn situation(kind: u8) -> Sit {
    let buf: [u8; 4] = kani::any();
    let whole = CowSlice::from(buf);
    match kind {
        0 => Sit { s: whole, other: None, view: buf.to_vec(), other_view: Vec::new() },
        1 => {
            let s = whole.clone();
            Sit { s, other: Some(whole), view: buf.to_vec(), other_view: buf.to_vec() }
        }
        2 => {
            let s = whole.slice(1..3);
            Sit { s, other: Some(whole), view: buf[1..3].to_vec(), other_view: buf.to_vec() }
        }
        3 => {
            let s = whole.slice(1..4);
            drop(whole);
            Sit { s, other: None, view: buf[1..4].to_vec(), other_view: Vec::new() }
        }
        4 => {
            // uniquely owned window with hidden elements on BOTH sides
            let s = whole.slice(1..3);
            drop(whole);
            Sit { s, other: None, view: buf[1..3].to_vec(), other_view: Vec::new() }
        }
        _ => {
            // uniquely owned prefix window (hidden tail only)
            let s = whole.slice(0..2);
            drop(whole);
            Sit { s, other: None, view: buf[0..2].to_vec(), other_view: Vec::new() }
        }
    }
}
fn check(sit: &Sit, want: &[u8]) {
    // result depends only on the view, not on how the buffer is stored
    assert!(same(sit.s.as_slice(), want));
    assert!(sit.s.len() == want.len());
    // a value that is still referenced elsewhere is never modified
    if let Some(o) = &sit.other {
        assert!(same(o.as_slice(), &sit.other_view));
    }
}

pub fn op_as_mut_slice(kind: u8) {
    let mut sit = situation(kind);
    let i: usize = kani::any();
    kani::assume(i < sit.view.len());
    let v: u8 = kani::any();
    sit.s.as_mut_slice()[i] = v;
    let mut want = sit.view.clone();
    want[i] = v;
    check(&sit, &want);
}
pub fn op_truncate(kind: u8, k: usize) {
    let mut sit = situation(kind);
    sit.s.truncate(k);
    let m = if k < sit.view.len() { k } else { sit.view.len() };
    let want = sit.view[..m].to_vec();
    check(&sit, &want);
}
pub fn op_extend_from_slice(kind: u8) {
    let mut sit = situation(kind);
    let o: [u8; 2] = kani::any();
    sit.s.extend_from_slice(&o);
    let want = cat(&[&sit.view, &o]);
    check(&sit, &want);
}
pub fn op_clear_reserve(kind: u8) {
    let mut sit = situation(kind);
    sit.s.reserve(3);
    sit.s.reserve_min(9);
    let want = sit.view.clone();
    check(&sit, &want);
    sit.s.clear();
    check(&sit, &[]);
}
pub fn op_split_off(kind: u8, at: usize) {
    let mut sit = situation(kind);
    let tail = sit.s.split_off(at);
    assert!(same(tail.as_slice(), &sit.view[at..]));
    let want = sit.view[..at].to_vec();
    check(&sit, &want);
}
pub fn op_remove(kind: u8, a: usize, b: usize) {
    let mut sit = situation(kind);
    sit.s.remove(a..b);
    let want = cat(&[&sit.view[..a], &sit.view[b..]]);
    check(&sit, &want);
}
pub fn op_extend_from_containers(kind: u8) {
    let mut sit = situation(kind);
    let o: [u8; 2] = kani::any();
    sit.s.extend_from_array(o);
    sit.s.extend_from_vec(o.to_vec());
    sit.s.extend_from_ecovec(EcoVec::from(o));
    sit.s.extend_from_cowslice(CowSlice::from(o));
    sit.s.extend(o.to_vec());
    let want = cat(&[&sit.view, &o, &o, &o, &o, &o]);
    check(&sit, &want);
}
pub fn op_extend_repeat(kind: u8, count: usize) {
    let mut sit = situation(kind);
    let e: u8 = kani::any();
    sit.s.extend_repeat(&e, count);
    let want = cat(&[&sit.view, &rep(&[e], count)]);
    check(&sit, &want);
}
pub fn op_extend_repeat_fill(kind: u8, count: usize, left: bool) {
    let mut sit = situation(kind);
    let e: u8 = kani::any();
    let fill = FillValue { value: e, side: if left { Some(SubSide::Left) } else if kani::any() { Some(SubSide::Right) } else { None } };
    sit.s.extend_repeat_fill(&fill, count);
    // a left-sided fill puts the fill elements in front of the existing ones
    let want = if left { cat(&[&rep(&[e], count), &sit.view]) } else { cat(&[&sit.view, &rep(&[e], count)]) };
    check(&sit, &want);
}
pub fn op_extend_repeat_slice(kind: u8, count: usize, slen: usize) {
    let mut sit = situation(kind);
    let o: [u8; 2] = kani::any();
    sit.s.extend_repeat_slice(&o[..slen], count);
    let want = cat(&[&sit.view, &rep(&o[..slen], count)]);
    check(&sit, &want);
}
pub fn op_extend_repeat_slice_fill(kind: u8, count: usize, slen: usize, left: bool) {
    let mut sit = situation(kind);
    let o: [u8; 2] = kani::any();
    let fill = FillValue { value: &o[..slen], side: if left { Some(SubSide::Left) } else { Some(SubSide::Right) } };
    sit.s.extend_repeat_slice_fill(fill, count);
    let want = if left { cat(&[&rep(&o[..slen], count), &sit.view]) } else { cat(&[&sit.view, &rep(&o[..slen], count)]) };
    check(&sit, &want);
}
pub fn op_slices(kind: u8) {
    let sit = situation(kind);
    let n = sit.view.len();
    let sub = sit.s.slice(1..n);
    assert!(same(sub.as_slice(), &sit.view[1..]));
    let sub2 = sit.s.slice(..=0);
    assert!(same(sub2.as_slice(), &sit.view[..1]));
    let want = sit.view.clone();
    check(&sit, &want);
    // conversions see exactly the view
    let v: Vec<u8> = sit.s.clone().into();
    assert!(same(&v, &sit.view));
    let e: EcoVec<u8> = sit.s.clone().into();
    assert!(same(&e, &sit.view));
    let it: Vec<u8> = sit.s.clone().into_iter().collect();
    assert!(same(&it, &sit.view));
    if n % 2 == 0 {
        let parts: Vec<CowSlice<u8>> = sit.s.clone().into_slices(n / 2).collect();
        assert!(parts.len() == 2 || n == 0);
        if n > 0 {
            assert!(same(parts[0].as_slice(), &sit.view[..n / 2]) && same(parts[1].as_slice(), &sit.view[n / 2..]));
        }
    }
}

// one harness per (operation, storage situation): generated list below
//@ id=C06.e3.cowslice.as_mut_slice.fresh props=C06,C09 level=bounded tier=quick desc="as_mut_slice write: view updated at one index; situation fresh"
#[kani::proof]
#[kani::unwind(16)]
fn h_as_mut_slice_0() {
    op_as_mut_slice(0);
}
//@ id=C06.e3.cowslice.as_mut_slice.shared props=C06,C09 level=bounded tier=quick desc="as_mut_slice on a shared buffer copies first: the other handle keeps its contents"
#[kani::proof]
#[kani::unwind(16)]
fn h_as_mut_slice_1() {
    op_as_mut_slice(1);
}
//@ id=C06.e3.cowslice.as_mut_slice.shared_window props=C06,C09 level=bounded tier=quick desc="as_mut_slice on a window of a shared buffer"
#[kani::proof]
#[kani::unwind(16)]
fn h_as_mut_slice_2() {
    op_as_mut_slice(2);
}
//@ id=C06.e3.cowslice.as_mut_slice.unique_window props=C06,C09 level=bounded tier=quick desc="as_mut_slice on a unique window (start > 0)"
#[kani::proof]
#[kani::unwind(16)]
fn h_as_mut_slice_3() {
    op_as_mut_slice(3);
}

//@ id=C06.e3.cowslice.canary props=C06 level=bounded tier=quick expect=fail desc="deliberately false: writing through a shared handle is visible to the other handle"
#[kani::proof]
#[kani::unwind(16)]
fn h_canary() {
    let mut sit = situation(1);
    sit.s.as_mut_slice()[0] = 7;
    assert!(sit.other.as_ref().unwrap().as_slice()[0] == 7);
}
