//! Positions of the tokens an ASCII-name run is split into (C19, and C09: no panic).
//! Precondition (from the lexer): the fragments are non-empty ASCII strings whose
//! concatenation is `lowercase`; `start` is any location the lexer can be at — lines are
//! at most 65535 characters (`lex` rejects longer ones), so `start.col - 1 + |lowercase| <= 65535`,
//! and offsets stay far below u32::MAX (file size).
use crate::*;

const TXT: &str = "abcdefghi";
fn le4(a: Loc, b: Loc) -> bool {
    (a.line, a.col) <= (b.line, b.col) && a.byte_pos <= b.byte_pos && a.char_pos <= b.char_pos
}
fn ck(nfrag: usize, n: [usize; 3]) {
    // fragment lengths are concrete (CBMC cannot cope with symbolic string slicing); the start location is symbolic
    let start = Loc { line: kani::any(), col: kani::any(), byte_pos: kani::any(), char_pos: kani::any() };
    let total = if nfrag == 2 { n[0] + n[1] } else { n[0] + n[1] + n[2] };
    kani::assume(start.col >= 1 && (start.col as usize - 1) + total <= 65535);
    kani::assume(start.byte_pos < 0xF000_0000 && start.char_pos < 0xF000_0000);
    let lowercase = &TXT[..total];
    let mut prims: Vec<(PrimComponent, &'static str)> = Vec::with_capacity(3);
    prims.push((PrimComponent, &TXT[..n[0]]));
    prims.push((PrimComponent, &TXT[n[0]..n[0] + n[1]]));
    if nfrag == 3 {
        prims.push((PrimComponent, &TXT[n[0] + n[1]..total]));
    }
    let mut lx = Lexer { src: InputSrc, tokens: Vec::with_capacity(3), _p: std::marker::PhantomData };
    lx.split_ident_spans(start, lowercase, prims);
    assert!(lx.tokens.len() == nfrag);
    // the first token starts where the run starts; tokens are adjacent, ordered, non-overlapping
    assert!(lx.tokens[0].span.start == start);
    let mut i = 0;
    while i < nfrag {
        let sp = &lx.tokens[i].span;
        assert!(le4(sp.start, sp.end));
        assert!(sp.start.line == start.line && sp.end.line == start.line);
        if i + 1 < nfrag {
            assert!(sp.end == lx.tokens[i + 1].span.start);
            // each inner boundary lies exactly after that fragment, in every component
            let upto: usize = if i == 0 { n[0] } else { n[0] + n[1] };
            assert!(sp.end.byte_pos == start.byte_pos + upto as u32);
            assert!(sp.end.char_pos == start.char_pos + upto as u32);
            assert!(sp.end.col as usize == (start.col as usize + upto).min(65535));
        }
        i += 1;
    }
    // the last token ends exactly after the whole run: byte offset, char offset and column agree
    let last = lx.tokens[nfrag - 1].span.end;
    assert!(last.byte_pos == start.byte_pos + total as u32);
    assert!(last.char_pos == start.char_pos + total as u32);
    assert!(last.col as usize == (start.col as usize + total).min(65535));
}

//@ id=C19.e3.ident_split.fragments_1_1 props=C19,C09 level=bounded tier=quick budget=600 bound="2 fragments of lengths (1, 1)" desc="a name run split into 2 tokens: spans adjacent, ordered, well-formed, byte/char/column all describe the same place, the last ends after the run; no panic or overflow for any start location the lexer allows"
#[kani::proof]
#[kani::unwind(12)]
fn h_split_1_1() {
    ck(2, [1, 1, 0]);
}
//@ id=C19.e3.ident_split.fragments_3_2 props=C19,C09 level=bounded tier=quick budget=600 bound="2 fragments of lengths (3, 2)" desc="a name run split into 2 tokens: spans adjacent, ordered, well-formed, byte/char/column all describe the same place, the last ends after the run; no panic or overflow for any start location the lexer allows"
#[kani::proof]
#[kani::unwind(12)]
fn h_split_3_2() {
    ck(2, [3, 2, 0]);
}
//@ id=C19.e3.ident_split.fragments_2_3 props=C19,C09 level=bounded tier=quick budget=600 bound="2 fragments of lengths (2, 3)" desc="a name run split into 2 tokens: spans adjacent, ordered, well-formed, byte/char/column all describe the same place, the last ends after the run; no panic or overflow for any start location the lexer allows"
#[kani::proof]
#[kani::unwind(12)]
fn h_split_2_3() {
    ck(2, [2, 3, 0]);
}
//@ id=C19.e3.ident_split.fragments_1_2_3 props=C19,C09 level=bounded tier=quick budget=600 bound="3 fragments of lengths (1, 2, 3)" desc="a name run split into 3 tokens: spans adjacent, ordered, well-formed, byte/char/column all describe the same place, the last ends after the run; no panic or overflow for any start location the lexer allows"
#[kani::proof]
#[kani::unwind(12)]
fn h_split_1_2_3() {
    ck(3, [1, 2, 3]);
}
//@ id=C19.e3.ident_split.fragments_3_3_3 props=C19,C09 level=bounded tier=quick budget=600 bound="3 fragments of lengths (3, 3, 3)" desc="a name run split into 3 tokens: spans adjacent, ordered, well-formed, byte/char/column all describe the same place, the last ends after the run; no panic or overflow for any start location the lexer allows"
#[kani::proof]
#[kani::unwind(12)]
fn h_split_3_3_3() {
    ck(3, [3, 3, 3]);
}
//@ id=C19.e3.ident_split.canary props=C19 level=bounded tier=quick expect=fail budget=600 desc="deliberately false: the second token starts at the run's start"
#[kani::proof]
#[kani::unwind(12)]
fn h_canary() {
    let start = Loc { line: 1, col: 1, byte_pos: 0, char_pos: 0 };
    let mut prims: Vec<(PrimComponent, &'static str)> = Vec::with_capacity(2);
    prims.push((PrimComponent, "ab"));
    prims.push((PrimComponent, "c"));
    let mut lx = Lexer { src: InputSrc, tokens: Vec::with_capacity(3), _p: std::marker::PhantomData };
    lx.split_ident_spans(start, "abc", prims);
    assert!(lx.tokens[1].span.start == start);
}
