//! E3 family `lexsplit`: the block of `Lexer::run` (parser/src/lex.rs) that turns one
//! ASCII-name run (e.g. `negabs`) into several tokens with their own spans, plus
//! `Lexer::make_span`, cut verbatim; only the choice of the token *kind* is dropped.
#![allow(dead_code, unused_variables, unused_mut, unused_imports, clippy::all)]
pub mod shim;
pub use shim::*;
mod extracted;
pub use extracted::*;
#[cfg(kani)]
mod harness;
