use crate::extracted::Loc;
#[derive(Clone, Copy, Debug, PartialEq, Eq)]
pub struct InputSrc;
#[derive(Clone, Debug)]
pub struct CodeSpan {
    pub src: InputSrc,
    pub start: Loc,
    pub end: Loc,
}
pub struct Sp<T> {
    pub value: T,
    pub span: CodeSpan,
}
impl CodeSpan {
    pub const fn sp<T>(self, value: T) -> Sp<T> {
        Sp { value, span: self }
    }
}
/// the kind of token chosen for a fragment: dropped (R10), only spans are under contract
#[derive(Clone, Copy)]
pub struct PrimComponent;
pub struct Tok;
pub fn tok_of(_p: PrimComponent) -> Tok {
    Tok
}
pub struct Lexer<'a> {
    pub src: InputSrc,
    pub tokens: Vec<Sp<Tok>>,
    pub _p: std::marker::PhantomData<&'a ()>,
}
