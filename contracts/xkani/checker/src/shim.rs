pub use crate::extracted::*;
#[derive(Clone, Copy, Default, Debug, PartialEq, Eq)]
pub struct Node;
#[derive(Clone, Copy, Debug, PartialEq, Eq)]
pub struct SigNode {
    pub node: Node,
    pub sig: Signature,
}
#[derive(Debug)]
pub struct SigCheckError;
pub struct VirtualEnv {
    pub stack: Stack,
    pub under: Stack,
    pub node_depth: usize,
}
impl VirtualEnv {
    /// IH-checker: checking an operand acts exactly as its recorded signature does
    pub fn sig_node(&mut self, sn: &SigNode) -> Result<(), SigCheckError> {
        self.handle_sig(sn.sig);
        Ok(())
    }
}
pub fn get_args_nodes<const N: usize>(args: &[SigNode]) -> Result<[&SigNode; N], SigCheckError> {
    if args.len() != N {
        return Err(SigCheckError);
    }
    Ok(std::array::from_fn(|i| &args[i]))
}
pub fn get_args<const N: usize>(args: &[SigNode]) -> Result<[Signature; N], SigCheckError> {
    if args.len() != N {
        return Err(SigCheckError);
    }
    Ok(std::array::from_fn(|i| args[i].sig))
}
