//! Checker arms for fork / bracket (C02): the signature the checker computes equals the
//! documented one — the same function the run-time obligations C07.e3.rt.fork / bracket use:
//!   fork F G H     : |max(a_i) . sum(o_i)
//!   bracket F G H  : |sum(a_i) . sum(o_i)
use crate::*;

fn any_sn() -> SigNode {
    let a: u8 = kani::any();
    let o: u8 = kani::any();
    SigNode { node: Node, sig: Signature::new(a as usize, o as usize) }
}
fn fresh() -> VirtualEnv {
    // an arbitrary state of the checker in the middle of a function: height and deficit symbolic
    let h: i16 = kani::any();
    let m: u16 = kani::any();
    kani::assume(m as i32 >= -(h as i32));
    VirtualEnv { stack: Stack { height: h as i32, min_height: m as usize }, under: Stack::default(), node_depth: 0 }
}
/// effect of a function |a.o on the checker's view (height, least height needed)
fn app(h: i64, m: i64, a: i64, o: i64) -> (i64, i64) {
    (h - a + o, if m > a - h { m } else { a - h })
}
fn ck(n: usize, which: u8) {
    let ops = [any_sn(), any_sn(), any_sn()];
    let mut env = fresh();
    let (h0, m0) = (env.stack.height as i64, env.stack.min_height as i64);
    let args = &ops[..n];
    let r = match which {
        0 => env.arm_fork(args),
        1 => env.arm_bracket(args),
        _ => env.arm_unbracket(args),
    };
    assert!(r.is_ok());
    let mut maxa = 0i64;
    let mut suma = 0i64;
    let mut sumo = 0i64;
    let mut i = 0;
    while i < n {
        let (a, o) = (ops[i].sig.args() as i64, ops[i].sig.outputs() as i64);
        if a > maxa {
            maxa = a;
        }
        suma += a;
        sumo += o;
        i += 1;
    }
    let want = if which == 0 { app(h0, m0, maxa, sumo) } else { app(h0, m0, suma, sumo) };
    assert!(env.stack.height as i64 == want.0 && env.stack.min_height as i64 == want.1);
    assert!(env.under.height == 0 && env.under.min_height == 0);
}
//@ id=C02.e3.chk.fork_2 props=C02,C07,C09 level=bounded tier=quick budget=600 bound="2 operands, signatures < 256" desc="checker arm fork: |max(a_i).sum(o_i), from any checker state"
#[kani::proof]
#[kani::unwind(6)]
fn h_fork_2() {
    ck(2, 0);
}
//@ id=C02.e3.chk.fork_3 props=C02,C07,C09 level=bounded tier=quick budget=600 bound="3 operands" desc="checker arm fork with 3 operands"
#[kani::proof]
#[kani::unwind(6)]
fn h_fork_3() {
    ck(3, 0);
}
//@ id=C02.e3.chk.bracket_2 props=C02,C07,C09 level=bounded tier=quick budget=600 bound="2 operands" desc="checker arm bracket: |sum(a_i).sum(o_i)"
#[kani::proof]
#[kani::unwind(6)]
fn h_bracket_2() {
    ck(2, 1);
}
//@ id=C02.e3.chk.bracket_3 props=C02,C07,C09 level=bounded tier=quick budget=600 bound="3 operands" desc="checker arm bracket with 3 operands"
#[kani::proof]
#[kani::unwind(6)]
fn h_bracket_3() {
    ck(3, 1);
}
//@ id=C02.e3.chk.unbracket_2 props=C02,C03,C09 level=bounded tier=quick budget=600 bound="2 operands" desc="checker arm un-bracket: |sum(a_i).sum(o_i) of the (already inverted) operands"
#[kani::proof]
#[kani::unwind(6)]
fn h_unbracket_2() {
    ck(2, 2);
}
//@ id=C02.e3.chk.both_matches_verus props=C02,C07,C09 level=bounded tier=quick budget=600 bound="signatures < 256" desc="checker arm both: |2a.2o (cross-check of the Verus obligation C02.e2.chk.arm_both by a second engine)"
#[kani::proof]
#[kani::unwind(6)]
fn h_both() {
    let f = any_sn();
    let mut env = fresh();
    let (h0, m0) = (env.stack.height as i64, env.stack.min_height as i64);
    assert!(env.arm_both(&[f]).is_ok());
    let (a, o) = (f.sig.args() as i64, f.sig.outputs() as i64);
    let want = app(h0, m0, 2 * a, 2 * o);
    assert!(env.stack.height as i64 == want.0 && env.stack.min_height as i64 == want.1);
}
//@ id=C02.e3.chk.canary props=C02 level=bounded tier=quick expect=fail budget=600 desc="deliberately false: fork needs the SUM of its operands' arguments"
#[kani::proof]
#[kani::unwind(6)]
fn h_canary() {
    let ops = [any_sn(), any_sn()];
    let mut env = VirtualEnv { stack: Stack::default(), under: Stack::default(), node_depth: 0 };
    let _ = env.arm_fork(&ops);
    assert!(env.stack.min_height == ops[0].sig.args() + ops[1].sig.args());
}
