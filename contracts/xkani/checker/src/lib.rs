//! E3 family `checker`: arms of the signature checker (`VirtualEnv::node`, src/check.rs) whose
//! bodies are iterator code that Verus rejects (fork, bracket, …), with the checker's `Stack`
//! and helper methods, all cut verbatim; operands are checked by the IH model `sig_node`.
#![allow(dead_code, unused_variables, unused_mut, unused_imports, clippy::all)]
pub mod shim;
pub use shim::*;
mod extracted;
pub use extracted::*;
#[cfg(kani)]
mod harness;
