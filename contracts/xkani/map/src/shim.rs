//! Shim: `Array<K>` = shape + data, `Value` = numeric arrays only, and
//! `hash_start` = an ARBITRARY FIXED function of the key's equivalence class
//! (set by the harness), so that collisions, wrap-around and any hash function
//! are covered.  ASSUMPTION: the real `hash_start` respects `array_eq` (equal keys
//! start at the same slot) — that is obligation C15.e1.*.eq_implies_hash_eq.
use std::cmp::Ordering;
use std::hash::Hasher;
pub use std::mem::take;

use crate::extracted::*;

pub const fn must_cast(x: u64) -> f64 {
    f64::from_bits(x)
}

pub trait ArrayValue: ArrayCmp + Copy + Default + HashKey {}
impl ArrayValue for f64 {}

/// Element buffer without heap allocation (CBMC's allocator model is the dominant cost
/// otherwise): at most 4 elements.
#[derive(Clone, Copy, Debug)]
pub struct Data<K> {
    pub buf: [K; 4],
    pub len: usize,
}
impl<K: Default> Default for Data<K> {
    fn default() -> Self {
        Data { buf: std::array::from_fn(|_| K::default()), len: 0 }
    }
}
impl<K> Data<K> {
    pub fn as_mut_slice(&mut self) -> &mut [K] {
        &mut self.buf[..self.len]
    }
}
impl<K> std::ops::Deref for Data<K> {
    type Target = [K];
    fn deref(&self) -> &[K] {
        &self.buf[..self.len]
    }
}
/// shape without heap allocation: rank <= 2
#[derive(Clone, Copy, Debug, Default)]
pub struct Shape {
    pub dims: [usize; 2],
    pub rank: usize,
}
impl PartialEq for Shape {
    fn eq(&self, o: &Self) -> bool {
        // field by field (a derived == on the array goes through memcmp, which CBMC unrolls bytewise)
        self.rank == o.rank && self.dims[0] == o.dims[0] && self.dims[1] == o.dims[1]
    }
}
impl Shape {
    pub fn len(&self) -> usize {
        self.rank
    }
}
#[derive(Clone, Copy, Default, Debug)]
pub struct Array<K> {
    pub shape: Shape,
    pub data: Data<K>,
}
impl<K> Array<K> {
    pub fn row_len(&self) -> usize {
        if self.shape.rank == 2 { self.shape.dims[1] } else { 1 }
    }
    pub fn row_count(&self) -> usize {
        if self.shape.rank == 0 { 1 } else { self.shape.dims[0] }
    }
}
pub fn list(v: &[f64]) -> Array<f64> {
    let mut buf = [0.0; 4];
    let mut i = 0;
    while i < v.len() {
        buf[i] = v[i];
        i += 1;
    }
    Array { shape: Shape { dims: [v.len(), 0], rank: 1 }, data: Data { buf, len: v.len() } }
}
pub fn scalar(x: f64) -> Array<f64> {
    Array { shape: Shape { dims: [0, 0], rank: 0 }, data: Data { buf: [x, 0.0, 0.0, 0.0], len: 1 } }
}

/// Start slot of the QUERY key, set by the harness.  The probe loops call `hash_start`
/// only on the key they are asked about; the start slots of the keys already in the
/// table enter through the representation invariant (`reachable`) instead.
pub static mut QSTART: usize = 0;
pub fn hash_start<T: ArrayValue>(_arr: &Array<T>, capacity: usize) -> usize {
    unsafe { QSTART % capacity.max(1) }
}
pub trait HashKey {
    fn key_f64(&self) -> f64;
}
impl HashKey for f64 {
    fn key_f64(&self) -> f64 {
        *self
    }
}

/// `Value`, cut down to numeric arrays (the only key type modelled)
#[derive(Clone, Debug)]
pub enum Value {
    Num(Array<f64>),
    /// key types other than numbers are not modelled: their element type is uninhabited, so these variants
    /// can be named by the extracted code but never constructed
    Box(Array<NoElem>),
    Complex(Array<NoElem>),
    Char(Array<NoElem>),
    Byte(Array<NoElem>),
}
/// (a private field instead of an empty enum: CBMC aborts on arrays of zero-sized uninhabited elements; no code
/// in this crate constructs a `NoElem` array)
#[derive(Clone, Copy, Debug, Default)]
pub struct NoElem(u8);
impl MapItem for NoElem {
    fn empty_cell() -> Self {
        unreachable!()
    }
    fn tombstone_cell() -> Self {
        unreachable!()
    }
    fn is_any_empty_cell(&self) -> bool {
        unreachable!()
    }
    fn is_any_tombstone(&self) -> bool {
        unreachable!()
    }
}
pub fn absurd<T>(_a: &Array<NoElem>) -> T {
    unreachable!("key types other than numbers are not modelled")
}
impl Array<NoElem> {
    pub fn convert_ref(&self) -> Array<f64> {
        absurd(self)
    }
}
pub struct Boxed(pub Value);
impl From<Boxed> for Value {
    fn from(b: Boxed) -> Value {
        b.0
    }
}
impl Value {
    pub fn row_count(&self) -> usize {
        match self {
            Value::Num(a) => a.row_count(),
            Value::Box(n) | Value::Complex(n) | Value::Char(n) | Value::Byte(n) => absurd(n),
        }
    }
    pub fn row(&self, i: usize) -> Value {
        match self {
            Value::Num(a) => {
                // rows of a list are scalars (only scalar keys are modelled)
                Value::Num(scalar(a.data[i]))
            }
            Value::Box(n) | Value::Complex(n) | Value::Char(n) | Value::Byte(n) => absurd(n),
        }
    }
    pub fn unpacked_ref(&self) -> &Value {
        self
    }
    /// rows of the key array, as values (only scalar keys are modelled)
    pub fn rows(&self) -> impl Iterator<Item = Value> + '_ {
        (0..self.row_count()).map(move |i| self.row(i))
    }
}
/// MODEL of `Value == Value` for two numeric arrays: equal shapes and element-wise
/// `array_eq` (this is `impl PartialEq for Array`, src/array.rs:864).
impl PartialEq for Value {
    fn eq(&self, other: &Self) -> bool {
        match (self, other) {
            (Value::Num(a), Value::Num(b)) => {
                a.shape == b.shape && a.data.iter().zip(b.data.iter()).all(|(x, y)| x.array_eq(y))
            }
            _ => false,
        }
    }
}
impl MapItem for Value {
    fn empty_cell() -> Self {
        Value::Num(scalar(EMPTY_NAN))
    }
    fn tombstone_cell() -> Self {
        Value::Num(scalar(TOMBSTONE_NAN))
    }
    fn is_any_empty_cell(&self) -> bool {
        match self {
            Value::Num(num) => num.data.iter().any(|v| v.is_any_empty_cell()),
            Value::Box(n) | Value::Complex(n) | Value::Char(n) | Value::Byte(n) => absurd(n),
        }
    }
    fn is_any_tombstone(&self) -> bool {
        match self {
            Value::Num(num) => num.data.iter().any(|v| v.is_any_tombstone()),
            Value::Box(n) | Value::Complex(n) | Value::Char(n) | Value::Byte(n) => absurd(n),
        }
    }
}

#[derive(Clone, Debug)]
pub struct MapKeys {
    pub keys: Value,
    pub indices: [usize; 4],
    pub cap: usize,
    pub len: usize,
}
impl MapKeys {
    pub fn capacity(&self) -> usize {
        self.cap
    }
}
