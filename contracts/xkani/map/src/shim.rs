//! Shim: `Array<K>` = shape + data, `Value` = numeric arrays only, and
//! `hash_start` = an ARBITRARY FIXED function of the key's equivalence class
//! (set by the harness), so that collisions, wrap-around and any hash function
//! are covered.  ASSUMPTION: the real `hash_start` respects `array_eq` (equal keys
//! start at the same slot) — that is obligation C15.e1.*.eq_implies_hash_eq.
use std::cmp::Ordering;
use std::hash::Hasher;
pub use std::mem::take;

use crate::extracted::*;

pub const fn must_cast(x: u64) -> f64 {
    f64::from_bits(x)
}

pub trait ArrayValue: ArrayCmp + Clone + Default + HashKey {}
impl ArrayValue for f64 {}

#[derive(Clone, Default, Debug)]
pub struct Data<K>(pub Vec<K>);
impl<K> Data<K> {
    pub fn as_mut_slice(&mut self) -> &mut [K] {
        &mut self.0
    }
}
impl<K> std::ops::Deref for Data<K> {
    type Target = [K];
    fn deref(&self) -> &[K] {
        &self.0
    }
}
#[derive(Clone, Default, Debug)]
pub struct Array<K> {
    pub shape: Vec<usize>,
    pub data: Data<K>,
}
impl<K: Clone> Array<K> {
    pub fn row_len(&self) -> usize {
        let mut n = 1;
        let mut i = 1;
        while i < self.shape.len() {
            n *= self.shape[i];
            i += 1;
        }
        n
    }
    pub fn row_count(&self) -> usize {
        if self.shape.is_empty() { 1 } else { self.shape[0] }
    }
}
pub fn list(v: Vec<f64>) -> Array<f64> {
    Array { shape: vec![v.len()], data: Data(v) }
}
pub fn scalar(x: f64) -> Array<f64> {
    Array { shape: vec![], data: Data(vec![x]) }
}

/// start slot per key class, set by the harness: (key bits, slot)
pub static mut STARTS: [(u64, usize); 8] = [(0, 0); 8];
pub static mut NSTARTS: usize = 0;
/// Arbitrary fixed hash: looks the key up (by `array_eq`) in the table the harness declared.
pub fn hash_start<T: ArrayValue>(arr: &Array<T>, capacity: usize) -> usize {
    let k = arr.data[0].key_f64();
    let mut i = 0;
    unsafe {
        while i < NSTARTS {
            if f64::from_bits(STARTS[i].0).array_eq(&k) {
                return STARTS[i].1 % capacity.max(1);
            }
            i += 1;
        }
    }
    0
}
pub trait HashKey {
    fn key_f64(&self) -> f64;
}
impl HashKey for f64 {
    fn key_f64(&self) -> f64 {
        *self
    }
}

/// `Value`, cut down to numeric arrays (the only key type modelled)
#[derive(Clone, Debug)]
pub enum Value {
    Num(Array<f64>),
    /// boxed keys are not modelled: uninhabited
    Box(Never),
}
#[derive(Clone, Debug)]
pub enum Never {}
pub struct Boxed(pub Value);
impl From<Boxed> for Value {
    fn from(b: Boxed) -> Value {
        b.0
    }
}
impl Value {
    pub fn row_count(&self) -> usize {
        match self {
            Value::Num(a) => a.row_count(),
            Value::Box(n) => match *n {},
        }
    }
    pub fn row(&self, i: usize) -> Value {
        match self {
            Value::Num(a) => {
                let rl = a.row_len();
                Value::Num(Array { shape: a.shape[1..].to_vec(), data: Data(a.data[i * rl..(i + 1) * rl].to_vec()) })
            }
            Value::Box(n) => match *n {},
        }
    }
    pub fn unpacked_ref(&self) -> &Value {
        self
    }
}
/// MODEL of `Value == Value` for two numeric arrays: equal shapes and element-wise
/// `array_eq` (this is `impl PartialEq for Array`, src/array.rs:864).
impl PartialEq for Value {
    fn eq(&self, other: &Self) -> bool {
        match (self, other) {
            (Value::Num(a), Value::Num(b)) => {
                a.shape == b.shape && a.data.iter().zip(b.data.iter()).all(|(x, y)| x.array_eq(y))
            }
            _ => false,
        }
    }
}
impl MapItem for Value {
    fn empty_cell() -> Self {
        Value::Num(scalar(EMPTY_NAN))
    }
    fn tombstone_cell() -> Self {
        Value::Num(scalar(TOMBSTONE_NAN))
    }
    fn is_any_empty_cell(&self) -> bool {
        match self {
            Value::Num(num) => num.data.iter().any(|v| v.is_any_empty_cell()),
            Value::Box(n) => match *n {},
        }
    }
    fn is_any_tombstone(&self) -> bool {
        match self {
            Value::Num(num) => num.data.iter().any(|v| v.is_any_tombstone()),
            Value::Box(n) => match *n {},
        }
    }
}

#[derive(Clone, Debug)]
pub struct MapKeys {
    pub keys: Value,
    pub indices: Vec<usize>,
    pub len: usize,
}
impl MapKeys {
    pub fn capacity(&self) -> usize {
        self.indices.len()
    }
}
