//! E3 family `map`: the probe loops of src/algorithm/map.rs (nested fns
//! `insert_impl`, `remove_impl`, `MapKeys::get`, `set_tombstones`), the element
//! functions they use (`MapItem for f64`, `ArrayCmp for f64`, `ArrayCmpSlice`) and
//! the sentinel constants, cut verbatim out of /repo, over a shim `Array<K>`.
#![allow(dead_code, unused_variables, unused_mut, unused_imports, unreachable_patterns, clippy::all)]
macro_rules! val_as_arr {
    ($input:expr, |$arr:ident| $body:expr) => {
        match $input {
            Value::Num($arr) => $body,
            Value::Box(n) | Value::Complex(n) | Value::Char(n) | Value::Byte(n) => $crate::shim::absurd(n),
        }
    };
}
pub mod shim;
pub use shim::*;
mod extracted;
pub use extracted::*;
#[cfg(kani)]
mod harness;
