//! One-step inductive contracts for the key table (C16): assume the full
//! representation invariant `wf` of an ARBITRARY table, run ONE operation, assert
//! the change of the abstract association list and `wf` of the result.
//!
//! Abstract view: the set of (key, index) pairs of the live cells.
use crate::*;

#[derive(Clone)]
pub struct Tab {
    pub cap: usize,
    pub keys: Array<f64>,
    pub indices: [usize; 4],
    pub len: usize,
    pub starts: [usize; 4],
}
fn is_live(x: f64) -> bool {
    !x.is_any_empty_cell() && !x.is_any_tombstone()
}
fn nlive(k: &[f64]) -> usize {
    let mut n = 0;
    let mut i = 0;
    while i < k.len() {
        if is_live(k[i]) {
            n += 1;
        }
        i += 1;
    }
    n
}
/// every live key is reachable from its start slot without crossing an empty cell
fn reachable(k: &[f64], cap: usize, cell: usize, start: usize) -> bool {
    let mut j = start % cap;
    let mut steps = 0;
    while j != cell {
        if k[j].is_any_empty_cell() {
            return false;
        }
        j = (j + 1) % cap;
        steps += 1;
        if steps > cap {
            return false;
        }
    }
    true
}
/// Representation invariant (without the numbering of `indices`, which the callers renumber)
fn wf(k: &[f64], idx: &[usize], len: usize, cap: usize, starts: &[usize]) -> bool {
    if nlive(k) != len {
        return false;
    }
    let mut i = 0;
    while i < cap {
        if is_live(k[i]) {
            // keys are wildcard-free and pairwise distinct under array_eq
            if k[i].to_bits() == WILDCARD_NAN.to_bits() {
                return false;
            }
            let mut j = i + 1;
            while j < cap {
                if is_live(k[j]) && (k[i].array_eq(&k[j]) || idx[i] == idx[j]) {
                    return false;
                }
                j += 1;
            }
            if !reachable(k, cap, i, starts[i]) {
                return false;
            }
        }
        i += 1;
    }
    true
}
/// An arbitrary well-formed table of capacity `cap`, plus a query key with its own start slot.
fn any_table(cap: usize) -> (Tab, f64, usize) {
    // fixed-size symbolic arrays, only the first `cap` entries are used (no heap in the model)
    let ka: [u64; 4] = kani::any();
    let idx: [usize; 4] = kani::any();
    let starts: [usize; 4] = kani::any();
    let mut kb = [0.0f64; 4];
    let mut i = 0;
    while i < cap {
        kb[i] = f64::from_bits(ka[i]);
        kani::assume(idx[i] < 4 && starts[i] < cap);
        i += 1;
    }
    let k = &kb[..cap];
    let len = nlive(k);
    kani::assume(wf(k, &idx, len, cap, &starts));
    let q = f64::from_bits(kani::any());
    // the query is an ordinary key: not the wildcard and not one of the two sentinel payloads
    // (which cannot be told from a free cell by construction; only `⌝bytes` can make them)
    kani::assume(q.to_bits() != WILDCARD_NAN.to_bits() && is_live(q));
    let mut qstart: usize = kani::any();
    kani::assume(qstart < cap);
    // the hash respects equality: a query equal to a live key starts where that key starts
    let mut i = 0;
    while i < cap {
        if is_live(k[i]) && k[i].array_eq(&q) {
            qstart = starts[i];
        }
        i += 1;
    }
    // declare the (arbitrary, equality-respecting) hash of the query key to the shim
    unsafe {
        QSTART = qstart;
    }
    (Tab { cap, keys: list(k), indices: idx, len, starts }, q, qstart)
}
fn find(t: &Tab, q: f64) -> Option<usize> {
    let mut i = 0;
    while i < t.cap {
        if is_live(t.keys.data[i]) && t.keys.data[i].array_eq(&q) {
            return Some(i);
        }
        i += 1;
    }
    None
}

pub fn ck_remove(cap: usize) {
    let (t0, q, _qs) = any_table(cap);
    let mut t = t0.clone();
    let r = remove_impl(&mut t.keys, scalar(q), &mut t.indices[..cap], &mut t.len, cap);
    match find(&t0, q) {
        Some(c) => {
            // removed keys are absent: exactly that cell becomes a tombstone, its index is returned
            assert!(r == Some(t0.indices[c]));
            assert!(t.len == t0.len - 1);
            assert!(t.keys.data[c].is_any_tombstone());
            let mut i = 0;
            while i < cap {
                if i != c {
                    assert!(t.keys.data[i].to_bits() == t0.keys.data[i].to_bits());
                    assert!(t.indices[i] == t0.indices[i]);
                }
                i += 1;
            }
        }
        None => {
            // an absent key (NaN and -0 included) removes nothing — never an empty or tombstone cell
            assert!(r.is_none());
            assert!(t.len == t0.len);
            let mut i = 0;
            while i < cap {
                assert!(t.keys.data[i].to_bits() == t0.keys.data[i].to_bits());
                assert!(t.indices[i] == t0.indices[i]);
                i += 1;
            }
        }
    }
    assert!(wf(&t.keys.data, &t.indices, t.len, cap, &t0.starts));
}
pub fn ck_get(cap: usize) {
    let (t0, q, _qs) = any_table(cap);
    let mk = MapKeys { keys: Value::Num(t0.keys), indices: t0.indices, cap, len: t0.len };
    let r = mk.get(&Value::Num(scalar(q)));
    match find(&t0, q) {
        Some(c) => assert!(r == Some(t0.indices[c])),
        None => assert!(r.is_none()),
    }
}
pub fn ck_insert(cap: usize) {
    let (t0, q, qstart) = any_table(cap);
    let mut t = t0.clone();
    let index: usize = kani::any();
    kani::assume(index < 8);
    let r = insert_impl(&mut t.keys, &mut t.indices[..cap], scalar(q), index, &mut t.len, cap);
    match find(&t0, q) {
        Some(c) => {
            // the latest value inserted for a key wins: the old index is reported, the cell keeps the key
            assert!(r.is_ok() && r.unwrap() == Some(t0.indices[c]));
            assert!(t.len == t0.len);
            assert!(t.indices[c] == index && t.keys.data[c].array_eq(&q));
            let mut i = 0;
            while i < cap {
                if i != c {
                    assert!(t.keys.data[i].to_bits() == t0.keys.data[i].to_bits() && t.indices[i] == t0.indices[i]);
                }
                i += 1;
            }
        }
        None => match r {
            Ok(rep) => {
                assert!(rep.is_none());
                assert!(t.len == t0.len + 1);
                // exactly one formerly free cell now holds the key
                let mut changed = 0;
                let mut at = 0;
                let mut i = 0;
                while i < cap {
                    if t.keys.data[i].to_bits() != t0.keys.data[i].to_bits() || t.indices[i] != t0.indices[i] {
                        changed += 1;
                        at = i;
                    }
                    i += 1;
                }
                assert!(changed == 1);
                assert!(!is_live(t0.keys.data[at]));
                assert!(t.keys.data[at].to_bits() == q.to_bits() && t.indices[at] == index);
                // and it can be found again from its start slot
                let mut st = t0.starts;
                st[at] = qstart;
                assert!(wf(&t.keys.data, &t.indices, t.len, cap, &st) || t.indices[..cap].iter().filter(|&&x| x == index).count() > 1);
                assert!(reachable(&t.keys.data, cap, at, qstart));
            }
            Err(_) => {
                // the table is full of other live keys and is left untouched
                assert!(t0.len == cap && t.len == t0.len);
                let mut i = 0;
                while i < cap {
                    assert!(t.keys.data[i].to_bits() == t0.keys.data[i].to_bits() && t.indices[i] == t0.indices[i]);
                    i += 1;
                }
            }
        },
    }
}
pub fn ck_set_tombstones(cap: usize) {
    let (t0, _q, _qs) = any_table(cap);
    let mut keys = t0.keys.clone();
    let a: usize = kani::any();
    kani::assume(a < cap);
    set_tombstones(&mut keys, &[a]);
    let mut i = 0;
    while i < cap {
        if i == a {
            assert!(keys.data[i].is_any_tombstone());
        } else {
            assert!(keys.data[i].to_bits() == t0.keys.data[i].to_bits());
        }
        i += 1;
    }
}

// ---------------- row operations on the key table: the table follows the rows of the map array ----------------
/// numbering invariant: the live cells carry the row numbers 0..len (distinctness is part of `wf`)
fn numbered(t: &Tab) -> bool {
    let mut i = 0;
    while i < t.cap {
        if is_live(t.keys.data[i]) && t.indices[i] >= t.len {
            return false;
        }
        i += 1;
    }
    true
}
fn keys_of(mk: &MapKeys) -> &Array<f64> {
    match &mk.keys {
        Value::Num(a) => a,
        _ => unreachable!(),
    }
}
/// A table whose cells follow `pat` (0 live, 1 tombstone, 2 empty).  Live keys are the fixed distinct numbers
/// 1, 2, 3, … (the row operations never look at key values, only at liveness); the row numbers, the start slots
/// and the operation's argument are symbolic.  Concrete liveness keeps every Vec length in `present_indices` concrete.
fn pattern_table(cap: usize, pat: [u8; 3]) -> Tab {
    let idx: [usize; 4] = kani::any();
    let starts: [usize; 4] = kani::any();
    let mut kb = [0.0f64; 4];
    let mut i = 0;
    while i < cap {
        kb[i] = match pat[i] {
            0 => (i + 1) as f64,
            1 => TOMBSTONE_NAN,
            _ => EMPTY_NAN,
        };
        kani::assume(idx[i] < 4 && starts[i] < cap);
        i += 1;
    }
    let k = &kb[..cap];
    let len = nlive(k);
    kani::assume(wf(k, &idx, len, cap, &starts));
    Tab { cap, keys: list(k), indices: idx, len, starts }
}
/// which: 0 drop(n), 1 take(n), 2 reverse, 3 rotate(by)
pub fn ck_rowop(cap: usize, which: u8, pat: [u8; 3]) {
    let t0 = pattern_table(cap, pat);
    kani::assume(numbered(&t0));
    let mut mk = MapKeys { keys: Value::Num(t0.keys), indices: t0.indices, cap, len: t0.len };
    let n: usize = kani::any();
    let by: isize = kani::any();
    match which {
        0 => mk.drop(n),
        1 => mk.take(n),
        2 => mk.reverse(),
        _ => mk.rotate(by),
    }
    let m = if n < t0.len { n } else { t0.len };
    let k = keys_of(&mk);
    let mut i = 0;
    while i < cap {
        let was_live = is_live(t0.keys.data[i]);
        let old = t0.indices[i];
        if !was_live {
            // free cells stay what they were (empty cells stay empty: probe chains are not broken or extended)
            assert!(k.data[i].to_bits() == t0.keys.data[i].to_bits());
        } else {
            match which {
                0 => {
                    if old < m {
                        assert!(k.data[i].is_any_tombstone());
                    } else {
                        assert!(k.data[i].to_bits() == t0.keys.data[i].to_bits() && mk.indices[i] == old - m);
                    }
                }
                1 => {
                    if old >= m {
                        assert!(k.data[i].is_any_tombstone());
                    } else {
                        assert!(k.data[i].to_bits() == t0.keys.data[i].to_bits() && mk.indices[i] == old);
                    }
                }
                2 => assert!(k.data[i].to_bits() == t0.keys.data[i].to_bits() && mk.indices[i] == t0.len - 1 - old),
                _ => {
                    // row p of a rotation by `by` comes from row p + by: the key of old row r now names row r - by (mod len)
                    let want = (old as i128 - by as i128).rem_euclid(t0.len as i128) as usize;
                    assert!(k.data[i].to_bits() == t0.keys.data[i].to_bits() && mk.indices[i] == want);
                }
            }
        }
        i += 1;
    }
    match which {
        0 => assert!(mk.len == t0.len - m),
        1 => assert!(mk.len == m),
        _ => assert!(mk.len == t0.len),
    }
    assert!(wf(&k.data, &mk.indices, mk.len, cap, &t0.starts));
    let t1 = Tab { cap, keys: *k, indices: mk.indices, len: mk.len, starts: t0.starts };
    assert!(numbered(&t1));
}
/// every liveness pattern of a table of capacity `cap` (drop / take at capacity 3 are not registered: CBMC runs out
/// of memory on the 27 patterns; capacity 2 covers all 9)
pub fn ck_rowop_all(cap: usize, which: u8) {
    ck_rowop_from(cap, which, 0, 3)
}
/// the liveness patterns whose first cell is one of `lo..hi`
pub fn ck_rowop_from(cap: usize, which: u8, lo: u8, hi: u8) {
    let mut p0 = lo;
    while p0 < hi {
        let mut p1 = 0u8;
        while p1 < 3 {
            if cap == 2 {
                ck_rowop(2, which, [p0, p1, 2]);
            } else {
                let mut p2 = 0u8;
                while p2 < 3 {
                    ck_rowop(3, which, [p0, p1, p2]);
                    p2 += 1;
                }
            }
            p1 += 1;
        }
        p0 += 1;
    }
}
//@ id=C16.e3.map.wf_reachable props=C16 level=bounded tier=quick expect=fail budget=600 desc="vacuity guard: the representation invariant admits a table with a live NaN key, a tombstone and a colliding key"
#[kani::proof]
#[kani::unwind(5)]
fn h_wf_reach() {
    let (t, q, _) = any_table(3);
    kani::assume(t.len == 2 && t.keys.data[0].is_any_tombstone() && t.keys.data[1].is_nan() && t.starts[2] == 0 && q.is_nan());
    assert!(false);
}
//@ id=C16.e3.map.remove_impl.cap2 props=C16,C05,C09 level=bounded tier=quick budget=900 bound="capacity 2" desc="remove: Some(index) iff the key is present in a LIVE cell; exactly that cell becomes a tombstone, len decremented; absent keys (NaN, -0 included) change nothing; invariant preserved"
#[kani::proof]
#[kani::unwind(4)]
fn h_remove_2() {
    ck_remove(2);
}
//@ id=C16.e3.map.remove_impl.cap3 props=C16,C05,C09 level=bounded tier=thorough budget=3000 bound="capacity 3" desc="remove, capacity 3"
#[kani::proof]
#[kani::unwind(5)]
fn h_remove_3() {
    ck_remove(3);
}
//@ id=C16.e3.map.get.cap2 props=C16,C09 level=bounded tier=quick budget=900 bound="capacity 2" desc="get/has: Some(index) iff the key is present in a live cell"
#[kani::proof]
#[kani::unwind(6)]
fn h_get_2() {
    ck_get(2);
}
//@ id=C16.e3.map.get.cap3 props=C16,C09 level=bounded tier=thorough budget=3000 bound="capacity 3" desc="get/has, capacity 3"
#[kani::proof]
#[kani::unwind(7)]
fn h_get_3() {
    ck_get(3);
}
//@ id=C16.e3.map.insert_impl.cap2 props=C16,C09 level=bounded tier=quick budget=1500 bound="capacity 2" desc="insert: replaces the index of a present key (reporting the old one) or claims exactly one free cell reachable from the key's start slot, len incremented; Err only when the table is full of other keys"
#[kani::proof]
#[kani::unwind(4)]
fn h_insert_2() {
    ck_insert(2);
}
//@ id=C16.e3.map.insert_impl.cap3 props=C16,C05,C09 level=bounded tier=thorough budget=6000 bound="capacity 3" desc="insert, capacity 3"
#[kani::proof]
#[kani::unwind(5)]
fn h_insert_3() {
    ck_insert(3);
}
//@ id=C16.e3.map.set_tombstones.cap3 props=C16,C09 level=bounded tier=quick budget=600 bound="capacity 3" desc="set_tombstones marks exactly the given cells"
#[kani::proof]
#[kani::unwind(5)]
fn h_set_tombstones_3() {
    ck_set_tombstones(3);
}
//@ id=C16.e3.map.drop.cap2.first_live props=C16,C09 level=bounded tier=quick budget=900 bound="capacity 2, first cell live, every liveness pattern of the other (live / tombstone / empty per cell), live keys fixed distinct numbers, row numbers / start slots / argument symbolic" desc="drop(n): the keys of the first min(n, len) rows become tombstones, the others keep their cell and are renumbered by -n; free cells stay as they were; representation and numbering invariants preserved"
#[kani::proof]
#[kani::unwind(6)]
fn h_drop_2_live() {
    ck_rowop_from(2, 0, 0, 1);
}
//@ id=C16.e3.map.drop.cap2.first_tombstone props=C16,C09 level=bounded tier=quick budget=900 bound="capacity 2, first cell tombstone, every liveness pattern of the other (live / tombstone / empty per cell), live keys fixed distinct numbers, row numbers / start slots / argument symbolic" desc="drop(n): the keys of the first min(n, len) rows become tombstones, the others keep their cell and are renumbered by -n; free cells stay as they were; representation and numbering invariants preserved"
#[kani::proof]
#[kani::unwind(6)]
fn h_drop_2_tombstone() {
    ck_rowop_from(2, 0, 1, 2);
}
//@ id=C16.e3.map.drop.cap2.first_empty props=C16,C09 level=bounded tier=quick budget=900 bound="capacity 2, first cell empty, every liveness pattern of the other (live / tombstone / empty per cell), live keys fixed distinct numbers, row numbers / start slots / argument symbolic" desc="drop(n): the keys of the first min(n, len) rows become tombstones, the others keep their cell and are renumbered by -n; free cells stay as they were; representation and numbering invariants preserved"
#[kani::proof]
#[kani::unwind(6)]
fn h_drop_2_empty() {
    ck_rowop_from(2, 0, 2, 3);
}
//@ id=C16.e3.map.take.cap2.first_live props=C16,C09 level=bounded tier=quick budget=900 bound="capacity 2, first cell live, every liveness pattern of the other (live / tombstone / empty per cell), live keys fixed distinct numbers, row numbers / start slots / argument symbolic" desc="take(n): the keys of the rows from min(n, len) on become tombstones, the others are untouched; free cells stay as they were; representation and numbering invariants preserved"
#[kani::proof]
#[kani::unwind(6)]
fn h_take_2_live() {
    ck_rowop_from(2, 1, 0, 1);
}
//@ id=C16.e3.map.take.cap2.first_tombstone props=C16,C09 level=bounded tier=quick budget=900 bound="capacity 2, first cell tombstone, every liveness pattern of the other (live / tombstone / empty per cell), live keys fixed distinct numbers, row numbers / start slots / argument symbolic" desc="take(n): the keys of the rows from min(n, len) on become tombstones, the others are untouched; free cells stay as they were; representation and numbering invariants preserved"
#[kani::proof]
#[kani::unwind(6)]
fn h_take_2_tombstone() {
    ck_rowop_from(2, 1, 1, 2);
}
//@ id=C16.e3.map.take.cap2.first_empty props=C16,C09 level=bounded tier=quick budget=900 bound="capacity 2, first cell empty, every liveness pattern of the other (live / tombstone / empty per cell), live keys fixed distinct numbers, row numbers / start slots / argument symbolic" desc="take(n): the keys of the rows from min(n, len) on become tombstones, the others are untouched; free cells stay as they were; representation and numbering invariants preserved"
#[kani::proof]
#[kani::unwind(6)]
fn h_take_2_empty() {
    ck_rowop_from(2, 1, 2, 3);
}
//@ id=C16.e3.map.reverse.cap2 props=C16,C09 level=bounded tier=quick budget=900 bound="capacity 2, every liveness pattern (live / tombstone / empty per cell), live keys fixed distinct numbers, row numbers / start slots / argument symbolic" desc="reverse: every key keeps its cell and names row len-1-r; free cells stay as they were; representation and numbering invariants preserved"
#[kani::proof]
#[kani::unwind(6)]
fn h_reverse_2() {
    ck_rowop_all(2, 2);
}
//@ id=C16.e3.map.reverse.cap3 props=C16,C09 level=bounded tier=thorough budget=3000 bound="capacity 3, every liveness pattern (live / tombstone / empty per cell), live keys fixed distinct numbers, row numbers / start slots / argument symbolic" desc="reverse: every key keeps its cell and names row len-1-r; free cells stay as they were; representation and numbering invariants preserved"
#[kani::proof]
#[kani::unwind(7)]
fn h_reverse_3() {
    ck_rowop_all(3, 2);
}
//@ id=C16.e3.map.rotate.cap2 props=C16,C09 level=bounded tier=quick budget=900 bound="capacity 2, every liveness pattern (live / tombstone / empty per cell), live keys fixed distinct numbers, row numbers / start slots / argument symbolic" desc="rotate(by), any isize: every key keeps its cell and names row (r - by) mod len; free cells stay as they were; representation and numbering invariants preserved"
#[kani::proof]
#[kani::unwind(6)]
fn h_rotate_2() {
    ck_rowop_all(2, 3);
}
//@ id=C16.e3.map.rotate.cap3 props=C16,C09 level=bounded tier=thorough budget=3000 bound="capacity 3, every liveness pattern (live / tombstone / empty per cell), live keys fixed distinct numbers, row numbers / start slots / argument symbolic" desc="rotate(by), any isize: every key keeps its cell and names row (r - by) mod len; free cells stay as they were; representation and numbering invariants preserved"
#[kani::proof]
#[kani::unwind(7)]
fn h_rotate_3() {
    ck_rowop_all(3, 3);
}
//@ id=C16.e3.map.canary props=C16 level=bounded tier=quick expect=fail budget=600 desc="deliberately false: remove never finds anything"
#[kani::proof]
#[kani::unwind(4)]
fn h_canary() {
    let (t0, q, _) = any_table(2);
    let mut t = t0.clone();
    let r = remove_impl(&mut t.keys, scalar(q), &mut t.indices[..2], &mut t.len, 2);
    assert!(r.is_none());
}
