//! Shim: a lexer over a script of at most 6 characters drawn from the five classes the arm
//! distinguishes (`?`, `,`, `_`, a formatted subscript digit, anything else).  `end` records
//! the token; `Subscript` keeps only the integer.
use crate::extracted::Loc;
pub const CHARS: [&str; 5] = ["?", ",", "_", "₂", "x"];
pub const LEN: usize = 6;
#[derive(Debug, Clone, Copy, PartialEq, Eq)]
pub struct Subscript {
    pub num: i32,
}
impl From<i32> for Subscript {
    fn from(num: i32) -> Self {
        Subscript { num }
    }
}
#[derive(Debug, Clone, Copy, PartialEq, Eq)]
pub enum Token {
    Subscr(Subscript),
}
pub use Token::*;
pub struct Lexer<'a> {
    pub loc: Loc,
    pub input: [u8; LEN],
    pub len: usize,
    pub ended: [Option<(Token, Loc, Loc)>; 2],
    pub n_ended: usize,
    pub _p: std::marker::PhantomData<&'a ()>,
}
fn code_of(s: &str) -> u8 {
    match s.as_bytes()[0] {
        b'?' => 0,
        b',' => 1,
        b'_' => 2,
        0xe2 => 3,
        _ => 4,
    }
}
impl<'a> Lexer<'a> {
    fn pos(&self) -> usize {
        self.loc.char_pos as usize
    }
    fn advance(&mut self) {
        let c = CHARS[self.input[self.pos()] as usize];
        self.loc.char_pos += 1;
        self.loc.byte_pos += c.len() as u32;
        self.loc.col += 1;
    }
    pub fn peek_char(&self) -> Option<&'a str> {
        if self.pos() < self.len { Some(CHARS[self.input[self.pos()] as usize]) } else { None }
    }
    pub fn next_char(&mut self) -> Option<&'a str> {
        let c = self.peek_char()?;
        self.advance();
        Some(c)
    }
    pub fn next_char_exact(&mut self, s: &str) -> bool {
        if self.pos() < self.len && self.input[self.pos()] == code_of(s) {
            self.advance();
            true
        } else {
            false
        }
    }
    pub fn next_chars_exact<const N: usize>(&mut self, ss: [&str; N]) -> bool {
        let start = self.loc;
        let mut i = 0;
        while i < N {
            if !self.next_char_exact(ss[i]) {
                self.loc = start;
                return false;
            }
            i += 1;
        }
        true
    }
    pub fn end(&mut self, token: impl Into<Token>, start: Loc) {
        self.ended[self.n_ended] = Some((token.into(), start, self.loc));
        self.n_ended += 1;
    }
}
pub fn is_formatted_subscript(c: &str) -> bool {
    code_of(c) == 3
}
