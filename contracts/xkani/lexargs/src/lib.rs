//! E3 family `lexargs`: the arm of `Lexer::run` (parser/src/lex.rs) that turns a chain of
//! `?` characters with an integer subscript (`???₅`) into one `Subscr` token, plus the nested
//! `read_chain`, cut verbatim, over a scripted character source.
#![allow(dead_code, unused_variables, unused_mut, unused_imports, non_snake_case, clippy::all)]
pub mod shim;
pub use shim::*;
mod extracted;
pub use extracted::*;
#[cfg(kani)]
mod harness;
