//! C09: lexing `?…?ₙ?…?` never panics, whatever integer the subscript holds.
//! Preconditions (from the lexer): the first chain has 1 <= n < 2^30 characters (inputs are
//! shorter than 4 GiB: `Loc::byte_pos` is a u32); `num` is any i32 that `Lexer::subscript`
//! can return (all of them: `sub_num` accepts every value up to i32::MAX, and negation).
use crate::*;

fn lexer_at(input: [u8; LEN], len: usize) -> Lexer<'static> {
    Lexer {
        loc: Loc { line: 1, col: 1, byte_pos: 0, char_pos: 0 },
        input,
        len,
        ended: [None, None],
        n_ended: 0,
        _p: std::marker::PhantomData,
    }
}
fn script() -> ([u8; LEN], usize) {
    let input: [u8; LEN] = kani::any();
    let mut i = 0;
    while i < LEN {
        kani::assume(input[i] < 5);
        i += 1;
    }
    let len: usize = kani::any();
    kani::assume(len <= LEN);
    (input, len)
}
//@ id=C09.e3.lexargs.read_chain props=C09,C19 level=bounded tier=quick budget=600 bound="up to 6 following characters from 5 classes" desc="read_chain counts exactly the leading `?`s, leaves the lexer right after them, and reports the position of the last one"
#[kani::proof]
#[kani::unwind(8)]
fn h_read_chain() {
    let (input, len) = script();
    let mut lx = lexer_at(input, len);
    let (m, before_last) = read_chain(&mut lx);
    let mut k = 0usize;
    while k < len && input[k] == 0 {
        k += 1;
    }
    assert!(m as usize == k);
    assert!(lx.loc.char_pos as usize == k);
    assert!(if k == 0 { before_last.char_pos == 0 } else { before_last.char_pos as usize == k - 1 });
}
//@ id=C09.e3.lexargs.int_subscript_arm props=C09 level=bounded tier=quick budget=900 bound="first chain of 1 <= n < 2^30 `?`s, any i32 subscript, up to 6 following characters from 5 classes" desc="the integer-subscript arm of the `?` token neither overflows nor panics and ends exactly one Subscr token"
#[kani::proof]
#[kani::unwind(8)]
fn h_int_subscript_arm() {
    let (input, len) = script();
    let lx = lexer_at(input, len);
    let n: i32 = kani::any();
    let num: i32 = kani::any();
    kani::assume(n >= 1 && n < (1 << 30));
    let start = lx.loc;
    let lx = lx.arm_args_int(n, num, start);
    assert!(lx.n_ended == 1);
    let (Subscr(sub), s, e) = lx.ended[0].unwrap();
    assert!(s == start && e == lx.loc);
    // whenever the mathematical total fits, it is the total
    let mut k = 0usize;
    while k < len && input[k] == 0 {
        k += 1;
    }
    let follows = k < len && input[k] != 4 && (input[k] != 2 || (k + 1 < len && input[k + 1] == 2));
    let m = if follows && k > 0 { k as i64 - 1 } else { k as i64 };
    let total = n as i64 + num as i64 + m;
    if total >= i32::MIN as i64 && total <= i32::MAX as i64 {
        assert!(sub.num as i64 == total);
    }
}
//@ id=C09.e3.lexargs.canary props=C09 level=bounded tier=quick expect=fail budget=600 desc="deliberately false: the token's number is never negative"
#[kani::proof]
#[kani::unwind(8)]
fn h_lexargs_canary() {
    let (input, len) = script();
    let lx = lexer_at(input, len);
    let num: i32 = kani::any();
    let start = lx.loc;
    let lx = lx.arm_args_int(1, num, start);
    let (Subscr(sub), _, _) = lx.ended[0].unwrap();
    assert!(sub.num >= 0);
}
