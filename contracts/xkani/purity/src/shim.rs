pub use crate::extracted::Purity;
/// a primitive / implementation primitive, reduced to its purity class
#[derive(Clone, Copy)]
pub struct Prim(pub Purity);
impl Prim {
    pub fn purity(&self) -> Purity {
        self.0
    }
}
/// an operand: `ok` is what the recursive check answers for it (IH), and we count the visits
pub struct Node {
    pub ok: bool,
}
pub struct SigNode {
    pub node: Node,
}
pub struct Assembly;
pub struct Visited;
#[derive(Clone, Copy)]
pub struct PreEvalMode;
pub static mut VISITS: usize = 0;
/// is_min_purity's `recurse`
pub fn recurse(node: &Node, _purity: Purity, _asm: &Assembly, _visited: &mut Visited) -> bool {
    unsafe {
        VISITS += 1;
    }
    node.ok
}
/// matches_nodes' `recurse` (different arity)
pub fn recurse_m(_mode: PreEvalMode, node: &Node, _asm: &Assembly, _visited: &mut Visited) -> bool {
    node.ok
}
