//! The purity gate at the leaves and modifiers (C20): a piece of code is accepted for
//! compile-time evaluation only if EVERY primitive in it — modifiers themselves included —
//! has purity >= the mode's threshold (Pure, or Impure in editor mode).
use crate::*;

fn any_purity() -> Purity {
    match kani::any::<u8>() % 3 {
        0 => Purity::Mutating,
        1 => Purity::Impure,
        _ => Purity::Pure,
    }
}
fn ops(n: usize) -> Vec<SigNode> {
    let mut v = Vec::with_capacity(2);
    let mut i = 0;
    while i < n {
        v.push(SigNode { node: Node { ok: kani::any() } });
        i += 1;
    }
    v
}
fn all_ok(a: &[SigNode]) -> bool {
    let mut i = 0;
    while i < a.len() {
        if !a[i].node.ok {
            return false;
        }
        i += 1;
    }
    true
}

//@ id=C20.e3.is_min_purity.leaf_arms props=C20,C09 level=complete tier=quick desc="is_min_purity, Prim / ImplPrim arms: accepted iff the primitive's purity is at least the threshold"
#[kani::proof]
fn h_leaf_arms() {
    let p = Prim(any_purity());
    let t = any_purity();
    assert!(imp_arm_prim(&p, t) == (p.purity() >= t));
    assert!(imp_arm_implprim(&p, t) == (p.purity() >= t));
    // in particular nothing that is not Pure passes the default threshold
    if p.purity() != Purity::Pure {
        assert!(!imp_arm_prim(&p, Purity::Pure) && !imp_arm_implprim(&p, Purity::Pure));
    }
    // and nothing Mutating passes the editor threshold
    if p.purity() == Purity::Mutating {
        assert!(!imp_arm_prim(&p, Purity::Impure) && !imp_arm_implprim(&p, Purity::Impure));
    }
}
fn ck_mod(n: usize) {
    let p = Prim(any_purity());
    let t = any_purity();
    let a = ops(n);
    let want = p.purity() >= t && all_ok(&a);
    assert!(imp_arm_mod(&p, &a, t, &Assembly, &mut Visited) == want);
    assert!(imp_arm_implmod(&p, &a, t, &Assembly, &mut Visited) == want);
    // the pre-evaluation gate: a modifier is only folded if it is itself Pure and all operands pass
    let wantm = p.purity() == Purity::Pure && all_ok(&a);
    assert!(mn_arm_mod(&p, &a, PreEvalMode, &Assembly, &mut Visited) == wantm);
    assert!(mn_arm_implmod(&p, &a, PreEvalMode, &Assembly, &mut Visited) == wantm);
}
//@ id=C20.e3.is_min_purity.modifier_arms_0 props=C20,C09 level=bounded tier=quick bound="0 operands" desc="Mod / ImplMod arms of both gates: the modifier's OWN purity is checked as well as every operand"
#[kani::proof]
#[kani::unwind(5)]
fn h_mod_0() {
    ck_mod(0);
}
//@ id=C20.e3.is_min_purity.modifier_arms_1 props=C20,C09 level=bounded tier=quick bound="1 operand" desc="Mod / ImplMod arms, one operand"
#[kani::proof]
#[kani::unwind(5)]
fn h_mod_1() {
    ck_mod(1);
}
//@ id=C20.e3.is_min_purity.modifier_arms_2 props=C20,C09 level=bounded tier=quick bound="2 operands" desc="Mod / ImplMod arms, two operands"
#[kani::proof]
#[kani::unwind(5)]
fn h_mod_2() {
    ck_mod(2);
}
//@ id=C20.e3.purity.canary props=C20 level=bounded tier=quick expect=fail desc="deliberately false: an impure modifier over pure operands is accepted"
#[kani::proof]
#[kani::unwind(5)]
fn h_canary() {
    let a = ops(1);
    kani::assume(a[0].node.ok);
    assert!(imp_arm_mod(&Prim(Purity::Impure), &a, Purity::Pure, &Assembly, &mut Visited));
}
