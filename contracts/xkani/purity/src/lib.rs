//! E3 family `purity`: the primitive / modifier arms of the two purity gates that decide
//! what may be evaluated at compile time (`Node::is_min_purity` in src/tree.rs and
//! `PreEvalMode::matches_nodes` in src/compile/pre_eval.rs), cut verbatim.
#![allow(dead_code, unused_variables, unused_mut, unused_imports, clippy::all)]
pub mod shim;
pub use shim::*;
mod extracted;
pub use extracted::*;
#[cfg(kani)]
mod harness;
