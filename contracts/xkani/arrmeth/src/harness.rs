//! C05 (marks stay truthful, element count matches the shape), C08 (reverse is the
//! documented function), C09 (the unsafe swap stays in bounds) for `Array::reverse_depth`,
//! plus bit-level contracts of the ArrayMeta mark helpers.
use crate::*;

fn mk(shape: &[usize], n: usize) -> (Array<u8>, Vec<u8>, ArrayFlags, bool) {
    let buf: [u8; 6] = kani::any();
    let data = buf[..n].to_vec();
    let bits: u8 = kani::any();
    kani::assume(bits < 16);
    let flags = ArrayFlags(bits);
    let has_keys: bool = kani::any();
    let meta = if bits == 0 && !has_keys && kani::any() {
        ArrayMeta(None)
    } else {
        ArrayMeta(Some(Arc::new(ArrayMetaInner { flags, map_keys: if has_keys { Some(MapKeys::default()) } else { None }, ..Default::default() })))
    };
    (Array { shape: Shape(shape.to_vec()), data: Data(data.clone()), meta }, data, flags, has_keys)
}
/// rows (at the leading axis) sorted according to ArrayCmpSlice
fn rows_sorted(a: &Array<u8>, up: bool) -> bool {
    let rc = a.row_count();
    let mut i = 1;
    while i < rc {
        let (p, r) = (ArrayCmpSlice(a.row_slice(i - 1)), ArrayCmpSlice(a.row_slice(i)));
        if up && p > r {
            return false;
        }
        if !up && p < r {
            return false;
        }
        i += 1;
    }
    true
}
fn truthful(a: &Array<u8>) -> bool {
    (!a.meta.is_sorted_up() || rows_sorted(a, true))
        && (!a.meta.is_sorted_down() || rows_sorted(a, false))
        && (!a.meta.flags.is_boolean() || a.data.iter().all(|b| *b <= 1))
}
fn same_usize(a: &[usize], b: &[usize]) -> bool {
    if a.len() != b.len() {
        return false;
    }
    let mut i = 0;
    while i < a.len() {
        if a[i] != b[i] {
            return false;
        }
        i += 1;
    }
    true
}
fn same_u8(a: &[u8], b: &[u8]) -> bool {
    if a.len() != b.len() {
        return false;
    }
    let mut i = 0;
    while i < a.len() {
        if a[i] != b[i] {
            return false;
        }
        i += 1;
    }
    true
}
fn ck_reverse(shape: &[usize], n: usize, depth: usize) {
    let (mut a, before, flags0, has_keys) = mk(shape, n);
    // precondition of every mutator: the marks the array carries are truthful
    kani::assume(truthful(&a));
    a.reverse_depth(depth);
    // C05: element count, shape, marks truthful (also checked by the crate's own validator inside reverse_depth)
    assert!(same_usize(&a.shape.0, shape) && a.data.len() == n);
    assert!(truthful(&a));
    // C08: rows reversed within each chunk at `depth`
    let d = if depth < shape.len() { depth } else { shape.len() };
    if d < shape.len() {
        let chunk: usize = shape[d..].iter().product();
        let rows = shape[d];
        let row_len = if rows == 0 { 0 } else { chunk / rows };
        let mut c = 0;
        while chunk > 0 && c < n / chunk {
            let mut r = 0;
            while r < rows {
                let mut k = 0;
                while k < row_len {
                    assert!(a.data[c * chunk + r * row_len + k] == before[c * chunk + (rows - 1 - r) * row_len + k]);
                    k += 1;
                }
                r += 1;
            }
            c += 1;
        }
    } else {
        assert!(same_u8(&a.data.0, &before));
    }
    // marks: reversing the leading axis swaps the two sortedness marks and keeps the value marks;
    // reversing deeper drops sortedness
    let f = a.meta.flags;
    if d == 0 && !shape.is_empty() && n > 0 {
        assert!(f.contains(ArrayFlags::SORTED_UP) == flags0.contains(ArrayFlags::SORTED_DOWN));
        assert!(f.contains(ArrayFlags::SORTED_DOWN) == flags0.contains(ArrayFlags::SORTED_UP));
        // a map's key order is reversed together with its rows — exactly once
        if has_keys {
            assert!(a.meta.map_keys.as_ref().unwrap().reversed == 1);
        }
    }
    assert!(f.bits() & ArrayFlags::VALUE.bits() == flags0.bits() & ArrayFlags::VALUE.bits());
}

//@ id=C05.e3.reverse_depth.list3 props=C05,C08,C09,C16 level=bounded tier=quick budget=600 bound="shape [3], depth 0, all flag sets" desc="reverse of a list: elements reversed, sortedness marks swapped and still truthful, value marks kept, map keys reversed once; unsafe swap in bounds"
#[kani::proof]
#[kani::unwind(10)]
fn h_rev_list3() {
    ck_reverse(&[3], 3, 0);
}
//@ id=C05.e3.reverse_depth.list4 props=C05,C08,C09,C16 level=bounded tier=quick budget=600 bound="shape [4], depth 0" desc="reverse of a 4-element list"
#[kani::proof]
#[kani::unwind(10)]
fn h_rev_list4() {
    ck_reverse(&[4], 4, 0);
}
//@ id=C05.e3.reverse_depth.mat2x2_d0 props=C05,C08,C09 level=bounded tier=quick budget=900 bound="shape [2,2], depth 0" desc="reverse of a matrix reverses its rows"
#[kani::proof]
#[kani::unwind(10)]
fn h_rev_2x2_d0() {
    ck_reverse(&[2, 2], 4, 0);
}
//@ id=C05.e3.reverse_depth.mat2x3_d1 props=C05,C08,C09 level=bounded tier=quick budget=900 bound="shape [2,3], depth 1" desc="reverse at depth 1 reverses within each row and drops the sortedness marks"
#[kani::proof]
#[kani::unwind(10)]
fn h_rev_2x3_d1() {
    ck_reverse(&[2, 3], 6, 1);
}
//@ id=C05.e3.reverse_depth.mat3x2_d0 props=C05,C08,C09 level=bounded tier=thorough budget=3000 bound="shape [3,2], depth 0" desc="reverse of a 3x2 matrix"
#[kani::proof]
#[kani::unwind(10)]
fn h_rev_3x2_d0() {
    ck_reverse(&[3, 2], 6, 0);
}
//@ id=C16.e3.reverse_depth.rows_without_elements props=C16,C05,C09 level=bounded tier=quick budget=600 bound="shapes [2,0] and [3,0], depth 0, with map keys" desc="reversing a map whose rows have no elements (shape n x 0) still reverses its key order, exactly once: the rows exist and °map lists the keys in row order"
#[kani::proof]
#[kani::unwind(8)]
fn h_reverse_rows_without_elements() {
    let rows: usize = if kani::any() { 2 } else { 3 };
    let mut a: Array<u8> = Array { shape: Shape(vec![rows, 0]), data: Data(Vec::new()), meta: ArrayMeta(Some(Arc::new(ArrayMetaInner { map_keys: Some(MapKeys::default()), ..Default::default() }))) };
    a.reverse_depth(0);
    assert!(same_usize(&a.shape.0, &[rows, 0]) && a.data.len() == 0);
    assert!(a.meta.map_keys.as_ref().unwrap().reversed == 1);
}
//@ id=C05.e3.reverse_depth.empty props=C05,C09 level=bounded tier=quick budget=600 bound="shapes [0] and [2,0]" desc="reversing an array without elements changes nothing and does not panic"
#[kani::proof]
#[kani::unwind(10)]
fn h_rev_empty() {
    ck_reverse(&[0], 0, 0);
    ck_reverse(&[2, 0], 0, 0);
}
/// transpose moves the first axis to the end (forward) / the last axis to the front (backward):
/// forward:  out[j.., i] = in[i, j..]     backward: out[k, i..] = in[i.., k]
fn plain(shape: &[usize], n: usize) -> (Array<u8>, [u8; 6]) {
    let buf: [u8; 6] = kani::any();
    (Array { shape: Shape(shape.to_vec()), data: Data(buf[..n].to_vec()), meta: ArrayMeta(None) }, buf)
}
fn rot(shape: &[usize], forward: bool) -> Vec<usize> {
    // rotate the shape by one, written out (no slice::rotate in the spec)
    let r = shape.len();
    let mut w = Vec::with_capacity(r);
    let mut i = 0;
    while i < r {
        w.push(if forward { shape[(i + 1) % r] } else { shape[(i + r - 1) % r] });
        i += 1;
    }
    w
}
fn ck_transpose(shape: &[usize], n: usize, forward: bool) {
    let (mut a, before) = plain(shape, n);
    a.transpose_depth(0, if forward { 1 } else { -1 });
    let r = shape.len();
    assert!(same_usize(&a.shape.0, &rot(shape, forward)) && a.data.len() == n);
    if r == 2 && n > 0 {
        let (p, q) = (shape[0], shape[1]);
        let mut i = 0;
        while i < p {
            let mut j = 0;
            while j < q {
                assert!(a.data[j * p + i] == before[i * q + j]);
                j += 1;
            }
            i += 1;
        }
    }
    if r == 3 && n > 0 {
        let (p, q, t) = (shape[0], shape[1], shape[2]);
        let mut i = 0;
        while i < p {
            let mut j = 0;
            while j < q {
                let mut k = 0;
                while k < t {
                    let src = before[(i * q + j) * t + k];
                    if forward {
                        assert!(a.data[(j * t + k) * p + i] == src);
                    } else {
                        assert!(a.data[(k * p + i) * q + j] == src);
                    }
                    k += 1;
                }
                j += 1;
            }
            i += 1;
        }
    }
}
fn ck_transpose_roundtrip(shape: &[usize], n: usize) {
    let (mut a, before) = plain(shape, n);
    a.transpose_depth(0, 1);
    a.transpose_depth(0, -1);
    assert!(same_usize(&a.shape.0, shape) && same_u8(&a.data.0, &before[..n]));
}
//@ id=C08.e3.transpose.2x3 props=C08,C05,C09 level=bounded tier=quick budget=900 bound="shape [2,3]" desc="transpose of a 2x3 matrix: out[j][i] = in[i][j], shape rotated, element count kept"
#[kani::proof]
#[kani::unwind(10)]
fn h_tr_2x3() {
    ck_transpose(&[2, 3], 6, true);
}
//@ id=C08.e3.transpose.2x2_square props=C08,C05,C09 level=bounded tier=quick budget=900 bound="shape [2,2]" desc="transpose of a square matrix (in-place branch)"
#[kani::proof]
#[kani::unwind(10)]
fn h_tr_2x2() {
    ck_transpose(&[2, 2], 4, true);
}
//@ id=C08.e3.transpose.1x2x3_forward props=C08,C05,C09 level=bounded tier=quick budget=1500 bound="shape [1,2,3]" desc="rank-3 transpose: the first axis becomes the last"
#[kani::proof]
#[kani::unwind(10)]
fn h_tr_1x2x3_f() {
    ck_transpose(&[1, 2, 3], 6, true);
}
//@ id=C08.e3.transpose.2x1x3_backward props=C08,C05,C03,C09 level=bounded tier=quick budget=1500 bound="shape [2,1,3]" desc="rank-3 un-transpose: the last axis becomes the first"
#[kani::proof]
#[kani::unwind(10)]
fn h_tr_2x1x3_b() {
    ck_transpose(&[2, 1, 3], 6, false);
}
// (a transpose-then-un-transpose harness did not finish in 25 min; the two directions are specified against
// explicit index formulas above, from which the round trip follows)
//@ id=C08.e3.transpose.empty_rank3 props=C08,C05,C03,C09 level=bounded tier=quick budget=900 bound="shapes [0,2,3] and [2,3,0], both directions" desc="transposing an array without elements only rotates the shape — left for transpose, right for un-transpose"
#[kani::proof]
#[kani::unwind(10)]
fn h_tr_empty() {
    ck_transpose(&[0, 2, 3], 0, true);
    ck_transpose(&[0, 2, 3], 0, false);
    ck_transpose(&[2, 3, 0], 0, false);
}
//@ id=C05.e3.transpose.marks props=C05,C09 level=bounded tier=quick budget=900 bound="shape [2,2], all flag sets" desc="transpose drops the sortedness marks and the map keys (they no longer describe the rows) and keeps the value marks truthful"
#[kani::proof]
#[kani::unwind(10)]
fn h_tr_marks() {
    let (mut a, _b, f0, _k) = mk(&[2, 2], 4);
    kani::assume(truthful(&a));
    a.transpose_depth(0, 1);
    assert!(!a.meta.is_sorted_up() && !a.meta.is_sorted_down());
    assert!(a.meta.map_keys.is_none());
    assert!(a.meta.flags.bits() & 3 == f0.bits() & 3);
    assert!(truthful(&a));
}
fn ck_recompute(shape: &[usize], n: usize) {
    let (mut a, _before, f0, _k) = mk(shape, n);
    recompute_marks_after_load(&mut a);
    // marks of a loaded array are recomputed from its data: set exactly when true
    assert!(a.meta.is_sorted_up() == rows_sorted(&a, true));
    assert!(a.meta.is_sorted_down() == rows_sorted(&a, false));
    assert!(a.meta.flags.bits() & 3 == f0.bits() & 3);
}
//@ id=C17.e3.load.marks_recomputed.list3 props=C17,C05,C09 level=bounded tier=quick budget=900 bound="shape [3]" desc="deserialising an array (From<ArrayRep>) recomputes the sortedness marks from the data: each is set exactly when it is true, whatever the stored marks were"
#[kani::proof]
#[kani::unwind(10)]
fn h_load_marks_list3() {
    ck_recompute(&[3], 3);
}
//@ id=C17.e3.load.marks_recomputed.mat2x2 props=C17,C05,C09 level=bounded tier=quick budget=900 bound="shape [2,2]" desc="the same for a matrix (rows compared lexicographically)"
#[kani::proof]
#[kani::unwind(10)]
fn h_load_marks_2x2() {
    ck_recompute(&[2, 2], 4);
}
//@ id=C17.e3.load.marks_recomputed.empty props=C17,C05,C09 level=bounded tier=quick budget=600 bound="shapes [0], [1]" desc="empty and one-row arrays are marked sorted both ways"
#[kani::proof]
#[kani::unwind(10)]
fn h_load_marks_small() {
    ck_recompute(&[0], 0);
    ck_recompute(&[1], 1);
}
/// C17: the two conversions between an array and its serialised representation (`ArrayRep`) are inverse on
/// everything that is observable at run time: shape, elements, label and map keys.  (What serde does with an
/// `ArrayRep` is outside this contract.)  Which fields are present is fixed per harness so that the verifier's
/// control flow is concrete; their contents (and the flag bits) are symbolic.
fn ck_rep_roundtrip(shape: &[usize], n: usize, absent: bool, has_label: bool, has_keys: bool) {
    // element contents: the first one symbolic, the others fixed (the conversions never inspect them except to
    // recompute the marks, which C17.e3.load.marks_recomputed.* covers with fully symbolic contents)
    let mut buf: [u8; 4] = [7, 3, 9, 3];
    buf[0] = kani::any();
    let data = buf[..n].to_vec();
    let bits: u8 = kani::any();
    kani::assume(bits < 16);
    let label: Option<u8> = if has_label { Some(kani::any()) } else { None };
    let keys: Option<MapKeys> = if has_keys { Some(MapKeys { reversed: 0, token: kani::any(), len: 0 }) } else { None };
    let meta = if absent {
        ArrayMeta(None)
    } else {
        ArrayMeta(Some(Arc::new(ArrayMetaInner { label, flags: ArrayFlags(bits), map_keys: keys.clone(), ..Default::default() })))
    };
    let arr = Array { shape: Shape(shape.to_vec()), data: Data(data.clone()), meta };
    let rep = ArrayRep::from(arr);
    // the representation chosen never loses information the variant cannot carry
    match &rep {
        ArrayRep::Scalar(_) => assert!(shape.is_empty() && !has_label && !has_keys),
        ArrayRep::List(_) => assert!(shape.len() == 1 && !has_label && !has_keys),
        ArrayRep::Metaless(..) => assert!(!has_label && !has_keys),
        ArrayRep::Map(..) => assert!(!has_label && has_keys),
        ArrayRep::Full(..) => {}
    }
    let back: Array<u8> = Array::from(rep);
    assert!(same_usize(&back.shape, shape));
    assert!(same_u8(&back.data, &data));
    assert!(back.meta.label == label);
    assert!(back.meta.map_keys == keys);
}
//@ id=C17.e3.rep.roundtrip.scalar.nometa props=C17,C09 level=bounded tier=quick budget=600 bound="byte array of shape [], first element symbolic, the others fixed; label and map keys as opaque symbolic tokens; all 16 flag sets" desc="Array -> ArrayRep -> Array keeps shape, elements, label and map keys: shape [], meta nometa"
#[kani::proof]
#[kani::unwind(6)]
fn h_rep_rt_scalar_nometa() {
    ck_rep_roundtrip(&[], 1, true, false, false);
}
//@ id=C17.e3.rep.roundtrip.scalar.flags_only props=C17,C09 level=bounded tier=quick budget=600 bound="byte array of shape [], first element symbolic, the others fixed; label and map keys as opaque symbolic tokens; all 16 flag sets" desc="Array -> ArrayRep -> Array keeps shape, elements, label and map keys: shape [], meta flags_only"
#[kani::proof]
#[kani::unwind(6)]
fn h_rep_rt_scalar_flags_only() {
    ck_rep_roundtrip(&[], 1, false, false, false);
}
//@ id=C17.e3.rep.roundtrip.scalar.label props=C17,C09 level=bounded tier=quick budget=600 bound="byte array of shape [], first element symbolic, the others fixed; label and map keys as opaque symbolic tokens; all 16 flag sets" desc="Array -> ArrayRep -> Array keeps shape, elements, label and map keys: shape [], meta label"
#[kani::proof]
#[kani::unwind(6)]
fn h_rep_rt_scalar_label() {
    ck_rep_roundtrip(&[], 1, false, true, false);
}
//@ id=C17.e3.rep.roundtrip.scalar.map props=C17,C09 level=bounded tier=quick budget=600 bound="byte array of shape [], first element symbolic, the others fixed; label and map keys as opaque symbolic tokens; all 16 flag sets" desc="Array -> ArrayRep -> Array keeps shape, elements, label and map keys: shape [], meta map"
#[kani::proof]
#[kani::unwind(6)]
fn h_rep_rt_scalar_map() {
    ck_rep_roundtrip(&[], 1, false, false, true);
}
//@ id=C17.e3.rep.roundtrip.scalar.label_map props=C17,C09 level=bounded tier=quick budget=600 bound="byte array of shape [], first element symbolic, the others fixed; label and map keys as opaque symbolic tokens; all 16 flag sets" desc="Array -> ArrayRep -> Array keeps shape, elements, label and map keys: shape [], meta label_map"
#[kani::proof]
#[kani::unwind(6)]
fn h_rep_rt_scalar_label_map() {
    ck_rep_roundtrip(&[], 1, false, true, true);
}
//@ id=C17.e3.rep.roundtrip.empty_list.nometa props=C17,C09 level=bounded tier=thorough budget=600 bound="byte array of shape [0], first element symbolic, the others fixed; label and map keys as opaque symbolic tokens; all 16 flag sets" desc="Array -> ArrayRep -> Array keeps shape, elements, label and map keys: shape [0], meta nometa"
#[kani::proof]
#[kani::unwind(6)]
fn h_rep_rt_empty_list_nometa() {
    ck_rep_roundtrip(&[0], 0, true, false, false);
}
//@ id=C17.e3.rep.roundtrip.empty_list.flags_only props=C17,C09 level=bounded tier=thorough budget=600 bound="byte array of shape [0], first element symbolic, the others fixed; label and map keys as opaque symbolic tokens; all 16 flag sets" desc="Array -> ArrayRep -> Array keeps shape, elements, label and map keys: shape [0], meta flags_only"
#[kani::proof]
#[kani::unwind(6)]
fn h_rep_rt_empty_list_flags_only() {
    ck_rep_roundtrip(&[0], 0, false, false, false);
}
//@ id=C17.e3.rep.roundtrip.empty_list.label props=C17,C09 level=bounded tier=thorough budget=600 bound="byte array of shape [0], first element symbolic, the others fixed; label and map keys as opaque symbolic tokens; all 16 flag sets" desc="Array -> ArrayRep -> Array keeps shape, elements, label and map keys: shape [0], meta label"
#[kani::proof]
#[kani::unwind(6)]
fn h_rep_rt_empty_list_label() {
    ck_rep_roundtrip(&[0], 0, false, true, false);
}
//@ id=C17.e3.rep.roundtrip.empty_list.map props=C17,C09 level=bounded tier=thorough budget=600 bound="byte array of shape [0], first element symbolic, the others fixed; label and map keys as opaque symbolic tokens; all 16 flag sets" desc="Array -> ArrayRep -> Array keeps shape, elements, label and map keys: shape [0], meta map"
#[kani::proof]
#[kani::unwind(6)]
fn h_rep_rt_empty_list_map() {
    ck_rep_roundtrip(&[0], 0, false, false, true);
}
//@ id=C17.e3.rep.roundtrip.empty_list.label_map props=C17,C09 level=bounded tier=thorough budget=600 bound="byte array of shape [0], first element symbolic, the others fixed; label and map keys as opaque symbolic tokens; all 16 flag sets" desc="Array -> ArrayRep -> Array keeps shape, elements, label and map keys: shape [0], meta label_map"
#[kani::proof]
#[kani::unwind(6)]
fn h_rep_rt_empty_list_label_map() {
    ck_rep_roundtrip(&[0], 0, false, true, true);
}
//@ id=C17.e3.rep.roundtrip.list3.nometa props=C17,C09 level=bounded tier=quick budget=600 bound="byte array of shape [3], first element symbolic, the others fixed; label and map keys as opaque symbolic tokens; all 16 flag sets" desc="Array -> ArrayRep -> Array keeps shape, elements, label and map keys: shape [3], meta nometa"
#[kani::proof]
#[kani::unwind(6)]
fn h_rep_rt_list3_nometa() {
    ck_rep_roundtrip(&[3], 3, true, false, false);
}
//@ id=C17.e3.rep.roundtrip.list3.flags_only props=C17,C09 level=bounded tier=quick budget=600 bound="byte array of shape [3], first element symbolic, the others fixed; label and map keys as opaque symbolic tokens; all 16 flag sets" desc="Array -> ArrayRep -> Array keeps shape, elements, label and map keys: shape [3], meta flags_only"
#[kani::proof]
#[kani::unwind(6)]
fn h_rep_rt_list3_flags_only() {
    ck_rep_roundtrip(&[3], 3, false, false, false);
}
//@ id=C17.e3.rep.roundtrip.list3.label props=C17,C09 level=bounded tier=quick budget=600 bound="byte array of shape [3], first element symbolic, the others fixed; label and map keys as opaque symbolic tokens; all 16 flag sets" desc="Array -> ArrayRep -> Array keeps shape, elements, label and map keys: shape [3], meta label"
#[kani::proof]
#[kani::unwind(6)]
fn h_rep_rt_list3_label() {
    ck_rep_roundtrip(&[3], 3, false, true, false);
}
//@ id=C17.e3.rep.roundtrip.list3.map props=C17,C09 level=bounded tier=quick budget=600 bound="byte array of shape [3], first element symbolic, the others fixed; label and map keys as opaque symbolic tokens; all 16 flag sets" desc="Array -> ArrayRep -> Array keeps shape, elements, label and map keys: shape [3], meta map"
#[kani::proof]
#[kani::unwind(6)]
fn h_rep_rt_list3_map() {
    ck_rep_roundtrip(&[3], 3, false, false, true);
}
//@ id=C17.e3.rep.roundtrip.list3.label_map props=C17,C09 level=bounded tier=quick budget=600 bound="byte array of shape [3], first element symbolic, the others fixed; label and map keys as opaque symbolic tokens; all 16 flag sets" desc="Array -> ArrayRep -> Array keeps shape, elements, label and map keys: shape [3], meta label_map"
#[kani::proof]
#[kani::unwind(6)]
fn h_rep_rt_list3_label_map() {
    ck_rep_roundtrip(&[3], 3, false, true, true);
}
//@ id=C17.e3.rep.roundtrip.mat2x2.nometa props=C17,C09 level=bounded tier=quick budget=600 bound="byte array of shape [2, 2], first element symbolic, the others fixed; label and map keys as opaque symbolic tokens; all 16 flag sets" desc="Array -> ArrayRep -> Array keeps shape, elements, label and map keys: shape [2, 2], meta nometa"
#[kani::proof]
#[kani::unwind(6)]
fn h_rep_rt_mat2x2_nometa() {
    ck_rep_roundtrip(&[2, 2], 4, true, false, false);
}
//@ id=C17.e3.rep.roundtrip.mat2x2.flags_only props=C17,C09 level=bounded tier=quick budget=600 bound="byte array of shape [2, 2], first element symbolic, the others fixed; label and map keys as opaque symbolic tokens; all 16 flag sets" desc="Array -> ArrayRep -> Array keeps shape, elements, label and map keys: shape [2, 2], meta flags_only"
#[kani::proof]
#[kani::unwind(6)]
fn h_rep_rt_mat2x2_flags_only() {
    ck_rep_roundtrip(&[2, 2], 4, false, false, false);
}
//@ id=C17.e3.rep.roundtrip.mat2x2.label props=C17,C09 level=bounded tier=quick budget=600 bound="byte array of shape [2, 2], first element symbolic, the others fixed; label and map keys as opaque symbolic tokens; all 16 flag sets" desc="Array -> ArrayRep -> Array keeps shape, elements, label and map keys: shape [2, 2], meta label"
#[kani::proof]
#[kani::unwind(6)]
fn h_rep_rt_mat2x2_label() {
    ck_rep_roundtrip(&[2, 2], 4, false, true, false);
}
//@ id=C17.e3.rep.roundtrip.mat2x2.map props=C17,C09 level=bounded tier=quick budget=600 bound="byte array of shape [2, 2], first element symbolic, the others fixed; label and map keys as opaque symbolic tokens; all 16 flag sets" desc="Array -> ArrayRep -> Array keeps shape, elements, label and map keys: shape [2, 2], meta map"
#[kani::proof]
#[kani::unwind(6)]
fn h_rep_rt_mat2x2_map() {
    ck_rep_roundtrip(&[2, 2], 4, false, false, true);
}
//@ id=C17.e3.rep.roundtrip.mat2x2.label_map props=C17,C09 level=bounded tier=quick budget=600 bound="byte array of shape [2, 2], first element symbolic, the others fixed; label and map keys as opaque symbolic tokens; all 16 flag sets" desc="Array -> ArrayRep -> Array keeps shape, elements, label and map keys: shape [2, 2], meta label_map"
#[kani::proof]
#[kani::unwind(6)]
fn h_rep_rt_mat2x2_label_map() {
    ck_rep_roundtrip(&[2, 2], 4, false, true, true);
}
//@ id=C17.e3.rep.roundtrip.mat0x2.nometa props=C17,C09 level=bounded tier=thorough budget=600 bound="byte array of shape [0, 2], first element symbolic, the others fixed; label and map keys as opaque symbolic tokens; all 16 flag sets" desc="Array -> ArrayRep -> Array keeps shape, elements, label and map keys: shape [0, 2], meta nometa"
#[kani::proof]
#[kani::unwind(6)]
fn h_rep_rt_mat0x2_nometa() {
    ck_rep_roundtrip(&[0, 2], 0, true, false, false);
}
//@ id=C17.e3.rep.roundtrip.mat0x2.flags_only props=C17,C09 level=bounded tier=thorough budget=600 bound="byte array of shape [0, 2], first element symbolic, the others fixed; label and map keys as opaque symbolic tokens; all 16 flag sets" desc="Array -> ArrayRep -> Array keeps shape, elements, label and map keys: shape [0, 2], meta flags_only"
#[kani::proof]
#[kani::unwind(6)]
fn h_rep_rt_mat0x2_flags_only() {
    ck_rep_roundtrip(&[0, 2], 0, false, false, false);
}
//@ id=C17.e3.rep.roundtrip.mat0x2.label props=C17,C09 level=bounded tier=thorough budget=600 bound="byte array of shape [0, 2], first element symbolic, the others fixed; label and map keys as opaque symbolic tokens; all 16 flag sets" desc="Array -> ArrayRep -> Array keeps shape, elements, label and map keys: shape [0, 2], meta label"
#[kani::proof]
#[kani::unwind(6)]
fn h_rep_rt_mat0x2_label() {
    ck_rep_roundtrip(&[0, 2], 0, false, true, false);
}
//@ id=C17.e3.rep.roundtrip.mat0x2.map props=C17,C09 level=bounded tier=thorough budget=600 bound="byte array of shape [0, 2], first element symbolic, the others fixed; label and map keys as opaque symbolic tokens; all 16 flag sets" desc="Array -> ArrayRep -> Array keeps shape, elements, label and map keys: shape [0, 2], meta map"
#[kani::proof]
#[kani::unwind(6)]
fn h_rep_rt_mat0x2_map() {
    ck_rep_roundtrip(&[0, 2], 0, false, false, true);
}
//@ id=C17.e3.rep.roundtrip.mat0x2.label_map props=C17,C09 level=bounded tier=thorough budget=600 bound="byte array of shape [0, 2], first element symbolic, the others fixed; label and map keys as opaque symbolic tokens; all 16 flag sets" desc="Array -> ArrayRep -> Array keeps shape, elements, label and map keys: shape [0, 2], meta label_map"
#[kani::proof]
#[kani::unwind(6)]
fn h_rep_rt_mat0x2_label_map() {
    ck_rep_roundtrip(&[0, 2], 0, false, true, true);
}
//@ id=C17.e3.rep.roundtrip.rank3.nometa props=C17,C09 level=bounded tier=thorough budget=600 bound="byte array of shape [1, 1, 2], first element symbolic, the others fixed; label and map keys as opaque symbolic tokens; all 16 flag sets" desc="Array -> ArrayRep -> Array keeps shape, elements, label and map keys: shape [1, 1, 2], meta nometa"
#[kani::proof]
#[kani::unwind(6)]
fn h_rep_rt_rank3_nometa() {
    ck_rep_roundtrip(&[1, 1, 2], 2, true, false, false);
}
//@ id=C17.e3.rep.roundtrip.rank3.flags_only props=C17,C09 level=bounded tier=thorough budget=600 bound="byte array of shape [1, 1, 2], first element symbolic, the others fixed; label and map keys as opaque symbolic tokens; all 16 flag sets" desc="Array -> ArrayRep -> Array keeps shape, elements, label and map keys: shape [1, 1, 2], meta flags_only"
#[kani::proof]
#[kani::unwind(6)]
fn h_rep_rt_rank3_flags_only() {
    ck_rep_roundtrip(&[1, 1, 2], 2, false, false, false);
}
//@ id=C17.e3.rep.roundtrip.rank3.label props=C17,C09 level=bounded tier=thorough budget=600 bound="byte array of shape [1, 1, 2], first element symbolic, the others fixed; label and map keys as opaque symbolic tokens; all 16 flag sets" desc="Array -> ArrayRep -> Array keeps shape, elements, label and map keys: shape [1, 1, 2], meta label"
#[kani::proof]
#[kani::unwind(6)]
fn h_rep_rt_rank3_label() {
    ck_rep_roundtrip(&[1, 1, 2], 2, false, true, false);
}
//@ id=C17.e3.rep.roundtrip.rank3.map props=C17,C09 level=bounded tier=thorough budget=600 bound="byte array of shape [1, 1, 2], first element symbolic, the others fixed; label and map keys as opaque symbolic tokens; all 16 flag sets" desc="Array -> ArrayRep -> Array keeps shape, elements, label and map keys: shape [1, 1, 2], meta map"
#[kani::proof]
#[kani::unwind(6)]
fn h_rep_rt_rank3_map() {
    ck_rep_roundtrip(&[1, 1, 2], 2, false, false, true);
}
//@ id=C17.e3.rep.roundtrip.rank3.label_map props=C17,C09 level=bounded tier=thorough budget=600 bound="byte array of shape [1, 1, 2], first element symbolic, the others fixed; label and map keys as opaque symbolic tokens; all 16 flag sets" desc="Array -> ArrayRep -> Array keeps shape, elements, label and map keys: shape [1, 1, 2], meta label_map"
#[kani::proof]
#[kani::unwind(6)]
fn h_rep_rt_rank3_label_map() {
    ck_rep_roundtrip(&[1, 1, 2], 2, false, true, true);
}
//@ id=C17.e3.rep.canary props=C17 level=bounded tier=quick expect=fail budget=600 desc="deliberately false: a label is lost on the way through the representation"
#[kani::proof]
#[kani::unwind(10)]
fn h_rep_canary() {
    let meta = ArrayMeta(Some(Arc::new(ArrayMetaInner { label: Some(7), ..Default::default() })));
    let arr = Array { shape: Shape(vec![2]), data: Data(vec![0u8, 1]), meta };
    let back: Array<u8> = Array::from(ArrayRep::from(arr));
    assert!(back.meta.label.is_none());
}
// ---------------- first / last index of the minimum / maximum row (optimised `first rise`, `first fall`, `last rise`, `last fall`) ----------------
/// reference: position of the first / last minimal / maximal row under the array order
fn spec_index(a: &Array<u8>, want_max: bool, want_last: bool) -> usize {
    let rc = a.row_count();
    let mut best = 0;
    let mut i = 1;
    while i < rc {
        let (b, r) = (ArrayCmpSlice(a.row_slice(best)), ArrayCmpSlice(a.row_slice(i)));
        let better = if want_max { r > b } else { r < b };
        let tie = r == b;
        if better || (tie && want_last) {
            best = i;
        }
        i += 1;
    }
    best
}
/// C06: the outcome does not depend on truthful sortedness marks; C08: it is the reference index; a fill in scope
/// changes nothing for a non-empty array
fn ck_index(shape: &[usize], n: usize, which: u8) {
    let (a, data, _f, _k) = mk(shape, n);
    kani::assume(truthful(&a));
    let plain = Array { shape: Shape(shape.to_vec()), data: Data(data.clone()), meta: ArrayMeta(None) };
    let env = Uiua { fill: if kani::any() { Some(kani::any::<u8>() as f64) } else { None } };
    let call = |x: &Array<u8>| match which {
        0 => x.first_min_index(&env),
        1 => x.first_max_index(&env),
        2 => x.last_min_index(&env),
        _ => x.last_max_index(&env),
    };
    let (ra, rp) = (call(&a), call(&plain));
    match (&ra, &rp) {
        (Ok(x), Ok(y)) => assert!(*x == *y),
        (Err(_), Err(_)) => {}
        _ => assert!(false, "marked and unmarked array disagree on success"),
    }
    if a.row_count() > 0 {
        let want = spec_index(&plain, which == 1 || which == 3, which >= 2);
        assert!(rp.is_ok() && rp.unwrap() == want as f64);
    } else {
        // empty: the fill if there is one, otherwise an error
        match env.fill {
            Some(x) => assert!(rp.is_ok() && rp.unwrap() == x),
            None => assert!(rp.is_err()),
        }
    }
}
//@ id=C06.e3.index.first_min_index.list3 props=C06,C08,C09 level=bounded tier=quick budget=900 bound="byte array of shape [3], all truthful mark sets, fill present or absent" desc="Array::first_min_index: the same outcome with and without truthful sortedness marks, equal to the reference index (ties: first); empty arrays give the fill or an error"
#[kani::proof]
#[kani::unwind(8)]
fn h_index_first_min_index_list3() {
    ck_index(&[3], 3, 0);
}
//@ id=C06.e3.index.first_min_index.empty props=C06,C08,C09 level=bounded tier=quick budget=900 bound="byte array of shape [0], all truthful mark sets, fill present or absent" desc="Array::first_min_index: the same outcome with and without truthful sortedness marks, equal to the reference index (ties: first); empty arrays give the fill or an error"
#[kani::proof]
#[kani::unwind(8)]
fn h_index_first_min_index_empty() {
    ck_index(&[0], 0, 0);
}
//@ id=C06.e3.index.first_min_index.mat2x2 props=C06,C08,C09 level=bounded tier=thorough budget=900 bound="byte array of shape [2, 2], all truthful mark sets, fill present or absent" desc="Array::first_min_index: the same outcome with and without truthful sortedness marks, equal to the reference index (ties: first); empty arrays give the fill or an error"
#[kani::proof]
#[kani::unwind(8)]
fn h_index_first_min_index_mat2x2() {
    ck_index(&[2, 2], 4, 0);
}
//@ id=C06.e3.index.first_max_index.list3 props=C06,C08,C09 level=bounded tier=quick budget=900 bound="byte array of shape [3], all truthful mark sets, fill present or absent" desc="Array::first_max_index: the same outcome with and without truthful sortedness marks, equal to the reference index (ties: first); empty arrays give the fill or an error"
#[kani::proof]
#[kani::unwind(8)]
fn h_index_first_max_index_list3() {
    ck_index(&[3], 3, 1);
}
//@ id=C06.e3.index.first_max_index.empty props=C06,C08,C09 level=bounded tier=quick budget=900 bound="byte array of shape [0], all truthful mark sets, fill present or absent" desc="Array::first_max_index: the same outcome with and without truthful sortedness marks, equal to the reference index (ties: first); empty arrays give the fill or an error"
#[kani::proof]
#[kani::unwind(8)]
fn h_index_first_max_index_empty() {
    ck_index(&[0], 0, 1);
}
//@ id=C06.e3.index.first_max_index.mat2x2 props=C06,C08,C09 level=bounded tier=thorough budget=900 bound="byte array of shape [2, 2], all truthful mark sets, fill present or absent" desc="Array::first_max_index: the same outcome with and without truthful sortedness marks, equal to the reference index (ties: first); empty arrays give the fill or an error"
#[kani::proof]
#[kani::unwind(8)]
fn h_index_first_max_index_mat2x2() {
    ck_index(&[2, 2], 4, 1);
}
//@ id=C06.e3.index.last_min_index.list3 props=C06,C08,C09 level=bounded tier=quick budget=900 bound="byte array of shape [3], all truthful mark sets, fill present or absent" desc="Array::last_min_index: the same outcome with and without truthful sortedness marks, equal to the reference index (ties: last); empty arrays give the fill or an error"
#[kani::proof]
#[kani::unwind(8)]
fn h_index_last_min_index_list3() {
    ck_index(&[3], 3, 2);
}
//@ id=C06.e3.index.last_min_index.empty props=C06,C08,C09 level=bounded tier=quick budget=900 bound="byte array of shape [0], all truthful mark sets, fill present or absent" desc="Array::last_min_index: the same outcome with and without truthful sortedness marks, equal to the reference index (ties: last); empty arrays give the fill or an error"
#[kani::proof]
#[kani::unwind(8)]
fn h_index_last_min_index_empty() {
    ck_index(&[0], 0, 2);
}
//@ id=C06.e3.index.last_min_index.mat2x2 props=C06,C08,C09 level=bounded tier=thorough budget=900 bound="byte array of shape [2, 2], all truthful mark sets, fill present or absent" desc="Array::last_min_index: the same outcome with and without truthful sortedness marks, equal to the reference index (ties: last); empty arrays give the fill or an error"
#[kani::proof]
#[kani::unwind(8)]
fn h_index_last_min_index_mat2x2() {
    ck_index(&[2, 2], 4, 2);
}
//@ id=C06.e3.index.last_max_index.list3 props=C06,C08,C09 level=bounded tier=quick budget=900 bound="byte array of shape [3], all truthful mark sets, fill present or absent" desc="Array::last_max_index: the same outcome with and without truthful sortedness marks, equal to the reference index (ties: last); empty arrays give the fill or an error"
#[kani::proof]
#[kani::unwind(8)]
fn h_index_last_max_index_list3() {
    ck_index(&[3], 3, 3);
}
//@ id=C06.e3.index.last_max_index.empty props=C06,C08,C09 level=bounded tier=quick budget=900 bound="byte array of shape [0], all truthful mark sets, fill present or absent" desc="Array::last_max_index: the same outcome with and without truthful sortedness marks, equal to the reference index (ties: last); empty arrays give the fill or an error"
#[kani::proof]
#[kani::unwind(8)]
fn h_index_last_max_index_empty() {
    ck_index(&[0], 0, 3);
}
//@ id=C06.e3.index.last_max_index.mat2x2 props=C06,C08,C09 level=bounded tier=thorough budget=900 bound="byte array of shape [2, 2], all truthful mark sets, fill present or absent" desc="Array::last_max_index: the same outcome with and without truthful sortedness marks, equal to the reference index (ties: last); empty arrays give the fill or an error"
#[kani::proof]
#[kani::unwind(8)]
fn h_index_last_max_index_mat2x2() {
    ck_index(&[2, 2], 4, 3);
}
// ---------------- rise / fall index vectors and the sortedness tests (src/algorithm/monadic/sort.rs) ----------------
/// `p` is the stable sorting permutation of the rows (ascending, or descending when `down`)
fn is_stable_sorting_perm(a: &Array<u8>, p: &[usize], down: bool) -> bool {
    let rc = a.row_count();
    if p.len() != rc {
        return false;
    }
    let mut i = 0;
    while i < rc {
        if p[i] >= rc {
            return false;
        }
        let mut j = 0;
        while j < i {
            if p[j] == p[i] {
                return false;
            }
            j += 1;
        }
        if i > 0 {
            let (x, y) = (ArrayCmpSlice(a.row_slice(p[i - 1])), ArrayCmpSlice(a.row_slice(p[i])));
            let ord = if down { y.cmp(&x) } else { x.cmp(&y) };
            if ord == Ordering::Greater || (ord == Ordering::Equal && p[i - 1] > p[i]) {
                return false;
            }
        }
        i += 1;
    }
    true
}
fn ck_grade(shape: &[usize], n: usize, down: bool) {
    let (a, data, _f, _k) = mk(shape, n);
    kani::assume(truthful(&a));
    let plain = Array { shape: Shape(shape.to_vec()), data: Data(data.clone()), meta: ArrayMeta(None) };
    let (pa, pp) = if down { (a.fall_indices(), plain.fall_indices()) } else { (a.rise_indices(), plain.rise_indices()) };
    assert!(is_stable_sorting_perm(&plain, &pp, down));
    assert!(same_usize(&pa, &pp));
    // the sortedness tests agree with the definition, with and without marks
    assert!(a.is_sorted_up() == rows_sorted(&plain, true) && plain.is_sorted_up() == rows_sorted(&plain, true));
    assert!(a.is_sorted_down() == rows_sorted(&plain, false) && plain.is_sorted_down() == rows_sorted(&plain, false));
}
//@ id=C08.e3.grade.rise_indices.list3 props=C08,C06,C09 level=bounded tier=quick budget=900 bound="byte array of shape [3], all truthful mark sets" desc="Array::rise_indices is the stable ascending sorting permutation of the rows, the same with and without truthful marks; is_sorted_up / is_sorted_down agree with the definition"
#[kani::proof]
#[kani::unwind(8)]
fn h_grade_rise_list3() {
    ck_grade(&[3], 3, false);
}
//@ id=C08.e3.grade.rise_indices.mat2x2 props=C08,C06,C09 level=bounded tier=quick budget=900 bound="byte array of shape [2, 2], all truthful mark sets" desc="Array::rise_indices is the stable ascending sorting permutation of the rows, the same with and without truthful marks; is_sorted_up / is_sorted_down agree with the definition"
#[kani::proof]
#[kani::unwind(8)]
fn h_grade_rise_mat2x2() {
    ck_grade(&[2, 2], 4, false);
}
//@ id=C08.e3.grade.rise_indices.empty props=C08,C06,C09 level=bounded tier=quick budget=900 bound="byte array of shape [0], all truthful mark sets" desc="Array::rise_indices is the stable ascending sorting permutation of the rows, the same with and without truthful marks; is_sorted_up / is_sorted_down agree with the definition"
#[kani::proof]
#[kani::unwind(8)]
fn h_grade_rise_empty() {
    ck_grade(&[0], 0, false);
}
//@ id=C08.e3.grade.rise_indices.list4 props=C08,C06,C09 level=bounded tier=thorough budget=900 bound="byte array of shape [4], all truthful mark sets" desc="Array::rise_indices is the stable ascending sorting permutation of the rows, the same with and without truthful marks; is_sorted_up / is_sorted_down agree with the definition"
#[kani::proof]
#[kani::unwind(8)]
fn h_grade_rise_list4() {
    ck_grade(&[4], 4, false);
}
//@ id=C08.e3.grade.fall_indices.list3 props=C08,C06,C09 level=bounded tier=quick budget=900 bound="byte array of shape [3], all truthful mark sets" desc="Array::fall_indices is the stable descending sorting permutation of the rows, the same with and without truthful marks; is_sorted_up / is_sorted_down agree with the definition"
#[kani::proof]
#[kani::unwind(8)]
fn h_grade_fall_list3() {
    ck_grade(&[3], 3, true);
}
//@ id=C08.e3.grade.fall_indices.mat2x2 props=C08,C06,C09 level=bounded tier=quick budget=900 bound="byte array of shape [2, 2], all truthful mark sets" desc="Array::fall_indices is the stable descending sorting permutation of the rows, the same with and without truthful marks; is_sorted_up / is_sorted_down agree with the definition"
#[kani::proof]
#[kani::unwind(8)]
fn h_grade_fall_mat2x2() {
    ck_grade(&[2, 2], 4, true);
}
//@ id=C08.e3.grade.fall_indices.empty props=C08,C06,C09 level=bounded tier=quick budget=900 bound="byte array of shape [0], all truthful mark sets" desc="Array::fall_indices is the stable descending sorting permutation of the rows, the same with and without truthful marks; is_sorted_up / is_sorted_down agree with the definition"
#[kani::proof]
#[kani::unwind(8)]
fn h_grade_fall_empty() {
    ck_grade(&[0], 0, true);
}
//@ id=C08.e3.grade.fall_indices.list4 props=C08,C06,C09 level=bounded tier=thorough budget=900 bound="byte array of shape [4], all truthful mark sets" desc="Array::fall_indices is the stable descending sorting permutation of the rows, the same with and without truthful marks; is_sorted_up / is_sorted_down agree with the definition"
#[kani::proof]
#[kani::unwind(8)]
fn h_grade_fall_list4() {
    ck_grade(&[4], 4, true);
}
// ---------------- classify / unique / count_unique / deduplicate (src/algorithm/monadic/mod.rs) ----------------
fn row_eq(a: &Array<u8>, i: usize, j: usize) -> bool {
    ArrayCmpSlice(a.row_slice(i)) == ArrayCmpSlice(a.row_slice(j))
}
/// index of the first row equal to row i
fn first_equal(a: &Array<u8>, i: usize) -> usize {
    let mut j = 0;
    while j < i {
        if row_eq(a, j, i) {
            return j;
        }
        j += 1;
    }
    i
}
fn plain_of(shape: &[usize], data: &[u8]) -> Array<u8> {
    Array { shape: Shape(shape.to_vec()), data: Data(data.to_vec()), meta: ArrayMeta(None) }
}
/// C08: classify numbers the distinct rows in order of first appearance; unique marks first appearances;
/// count_unique counts them; deduplicate keeps exactly them, in order.  C06: the same with and without truthful
/// sortedness marks.  C05: what deduplicate leaves is well-formed and truthfully marked.
fn ck_classify_family(shape: &[usize], n: usize, which: u8) {
    let (a, data, _f, has_keys) = mk(shape, n);
    kani::assume(truthful(&a) && !has_keys);
    ck_classify_family_on(a, data, shape, which)
}
/// the same with the mark set fixed (keeps the verifier's control flow concrete for the heavier functions)
fn ck_classify_family_flags(shape: &[usize], n: usize, which: u8, bits: u8) {
    let buf: [u8; 6] = kani::any();
    let data = buf[..n].to_vec();
    let meta = if bits == 0 { ArrayMeta(None) } else { ArrayMeta(Some(Arc::new(ArrayMetaInner { flags: ArrayFlags(bits), ..Default::default() }))) };
    let a = Array { shape: Shape(shape.to_vec()), data: Data(data.clone()), meta };
    kani::assume(truthful(&a));
    ck_classify_family_on(a, data, shape, which)
}
fn ck_classify_family_on(a: Array<u8>, data: Vec<u8>, shape: &[usize], which: u8) {
    let plain = plain_of(shape, &data);
    let rc = plain.row_count();
    let mut distinct = 0;
    let mut i = 0;
    while i < rc {
        if first_equal(&plain, i) == i {
            distinct += 1;
        }
        i += 1;
    }
    match which {
        0 => {
            let (ca, cp) = (a.classify(), plain.classify());
            assert!(same_usize(&ca, &cp) && cp.len() == rc);
            let mut next = 0;
            let mut i = 0;
            while i < rc {
                let j = first_equal(&plain, i);
                if j == i {
                    assert!(cp[i] == next);
                    next += 1;
                } else {
                    assert!(cp[i] == cp[j]);
                }
                i += 1;
            }
        }
        1 => assert!(a.count_unique() == distinct && plain.count_unique() == distinct),
        2 => {
            let (ua, up) = (a.unique(), plain.unique());
            assert!(same_u8(&ua.data, &up.data) && up.data.len() == rc && same_usize(&up.shape, &[rc]));
            let mut i = 0;
            while i < rc {
                assert!(up.data[i] == if first_equal(&plain, i) == i { 1 } else { 0 });
                i += 1;
            }
            assert!(up.meta.flags.is_boolean());
        }
        _ => {
            // (one run, on the marked array: the reference below does not look at marks, so agreement with it for
            //  every truthful mark set is mark independence)
            let env = Uiua { fill: None };
            let mut da = a;
            assert!(da.deduplicate(&env).is_ok());
            assert!(da.shape[0] == distinct && da.shape.len() == shape.len());
            let mut k = 0;
            let mut i = 0;
            while i < rc {
                if first_equal(&plain, i) == i {
                    assert!(same_u8(da.row_slice(k), plain.row_slice(i)));
                    k += 1;
                }
                i += 1;
            }
            assert!(da.data.len() == distinct * plain.row_len());
            assert!(truthful(&da));
        }
    }
}
//@ id=C08.e3.classify.list3 props=C08,C06,C09 level=bounded tier=quick budget=900 bound="byte array of shape [3], all truthful mark sets, no map keys" desc="Array::classify agrees with its definition (first appearances, in order) and gives the same answer with and without truthful sortedness marks"
#[kani::proof]
#[kani::unwind(8)]
fn h_classify_list3() {
    ck_classify_family(&[3], 3, 0);
}
//@ id=C08.e3.classify.mat2x2 props=C08,C06,C09 level=bounded tier=thorough budget=900 bound="byte array of shape [2, 2], all truthful mark sets, no map keys" desc="Array::classify agrees with its definition (first appearances, in order) and gives the same answer with and without truthful sortedness marks"
#[kani::proof]
#[kani::unwind(8)]
fn h_classify_mat2x2() {
    ck_classify_family(&[2, 2], 4, 0);
}
//@ id=C08.e3.count_unique.list3 props=C08,C06,C09 level=bounded tier=quick budget=900 bound="byte array of shape [3], all truthful mark sets, no map keys" desc="Array::count_unique agrees with its definition (first appearances, in order) and gives the same answer with and without truthful sortedness marks"
#[kani::proof]
#[kani::unwind(8)]
fn h_count_unique_list3() {
    ck_classify_family(&[3], 3, 1);
}
//@ id=C08.e3.count_unique.mat2x2 props=C08,C06,C09 level=bounded tier=thorough budget=900 bound="byte array of shape [2, 2], all truthful mark sets, no map keys" desc="Array::count_unique agrees with its definition (first appearances, in order) and gives the same answer with and without truthful sortedness marks"
#[kani::proof]
#[kani::unwind(8)]
fn h_count_unique_mat2x2() {
    ck_classify_family(&[2, 2], 4, 1);
}
//@ id=C08.e3.unique.list3 props=C08,C06,C09 level=bounded tier=quick budget=900 bound="byte array of shape [3], all truthful mark sets, no map keys" desc="Array::unique agrees with its definition (first appearances, in order) and gives the same answer with and without truthful sortedness marks"
#[kani::proof]
#[kani::unwind(8)]
fn h_unique_list3() {
    ck_classify_family(&[3], 3, 2);
}
//@ id=C08.e3.unique.mat2x2 props=C08,C06,C09 level=bounded tier=thorough budget=900 bound="byte array of shape [2, 2], all truthful mark sets, no map keys" desc="Array::unique agrees with its definition (first appearances, in order) and gives the same answer with and without truthful sortedness marks"
#[kani::proof]
#[kani::unwind(8)]
fn h_unique_mat2x2() {
    ck_classify_family(&[2, 2], 4, 2);
}
//@ id=C08.e3.deduplicate.list3.unmarked props=C08,C06,C05,C09 level=bounded tier=quick budget=900 bound="byte array of shape [3], mark set unmarked (truthful), no map keys" desc="Array::deduplicate keeps exactly the first appearances, in order — the definition, which does not look at marks — and leaves a well-formed, truthfully marked array"
#[kani::proof]
#[kani::unwind(8)]
fn h_deduplicate_list3_unmarked() {
    ck_classify_family_flags(&[3], 3, 3, 0);
}
//@ id=C08.e3.deduplicate.list3.sorted_up props=C08,C06,C05,C09 level=bounded tier=quick budget=900 bound="byte array of shape [3], mark set sorted_up (truthful), no map keys" desc="Array::deduplicate keeps exactly the first appearances, in order — the definition, which does not look at marks — and leaves a well-formed, truthfully marked array"
#[kani::proof]
#[kani::unwind(8)]
fn h_deduplicate_list3_sorted_up() {
    ck_classify_family_flags(&[3], 3, 3, 4);
}
//@ id=C08.e3.deduplicate.list3.sorted_down props=C08,C06,C05,C09 level=bounded tier=quick budget=900 bound="byte array of shape [3], mark set sorted_down (truthful), no map keys" desc="Array::deduplicate keeps exactly the first appearances, in order — the definition, which does not look at marks — and leaves a well-formed, truthfully marked array"
#[kani::proof]
#[kani::unwind(8)]
fn h_deduplicate_list3_sorted_down() {
    ck_classify_family_flags(&[3], 3, 3, 8);
}
//@ id=C08.e3.deduplicate.list3.sorted_both props=C08,C06,C05,C09 level=bounded tier=quick budget=900 bound="byte array of shape [3], mark set sorted_both (truthful), no map keys" desc="Array::deduplicate keeps exactly the first appearances, in order — the definition, which does not look at marks — and leaves a well-formed, truthfully marked array"
#[kani::proof]
#[kani::unwind(8)]
fn h_deduplicate_list3_sorted_both() {
    ck_classify_family_flags(&[3], 3, 3, 12);
}
//@ id=C08.e3.deduplicate.mat2x2.unmarked props=C08,C06,C05,C09 level=bounded tier=thorough budget=900 bound="byte array of shape [2, 2], mark set unmarked (truthful), no map keys" desc="Array::deduplicate keeps exactly the first appearances, in order — the definition, which does not look at marks — and leaves a well-formed, truthfully marked array"
#[kani::proof]
#[kani::unwind(8)]
fn h_deduplicate_mat2x2_unmarked() {
    ck_classify_family_flags(&[2, 2], 4, 3, 0);
}
//@ id=C08.e3.deduplicate.mat2x2.sorted_up props=C08,C06,C05,C09 level=bounded tier=thorough budget=900 bound="byte array of shape [2, 2], mark set sorted_up (truthful), no map keys" desc="Array::deduplicate keeps exactly the first appearances, in order — the definition, which does not look at marks — and leaves a well-formed, truthfully marked array"
#[kani::proof]
#[kani::unwind(8)]
fn h_deduplicate_mat2x2_sorted_up() {
    ck_classify_family_flags(&[2, 2], 4, 3, 4);
}
//@ id=C08.e3.deduplicate.mat2x2.sorted_down props=C08,C06,C05,C09 level=bounded tier=thorough budget=900 bound="byte array of shape [2, 2], mark set sorted_down (truthful), no map keys" desc="Array::deduplicate keeps exactly the first appearances, in order — the definition, which does not look at marks — and leaves a well-formed, truthfully marked array"
#[kani::proof]
#[kani::unwind(8)]
fn h_deduplicate_mat2x2_sorted_down() {
    ck_classify_family_flags(&[2, 2], 4, 3, 8);
}
//@ id=C08.e3.deduplicate.mat2x2.sorted_both props=C08,C06,C05,C09 level=bounded tier=thorough budget=900 bound="byte array of shape [2, 2], mark set sorted_both (truthful), no map keys" desc="Array::deduplicate keeps exactly the first appearances, in order — the definition, which does not look at marks — and leaves a well-formed, truthfully marked array"
#[kani::proof]
#[kani::unwind(8)]
fn h_deduplicate_mat2x2_sorted_both() {
    ck_classify_family_flags(&[2, 2], 4, 3, 12);
}
/// occurrences: entry i counts the earlier rows equal to row i; the same with and without truthful marks
fn ck_occurrences(shape: &[usize], n: usize) {
    let (a, data, _f, has_keys) = mk(shape, n);
    kani::assume(truthful(&a) && !has_keys);
    let plain = plain_of(shape, &data);
    let rc = plain.row_count();
    let (oa, op) = (a.occurrences(), plain.occurrences());
    assert!(op.data.len() == rc && oa.data.len() == rc && same_usize(&op.shape, &[rc]) && same_usize(&oa.shape, &[rc]));
    let mut i = 0;
    while i < rc {
        let mut earlier = 0;
        let mut j = 0;
        while j < i {
            if row_eq(&plain, j, i) {
                earlier += 1;
            }
            j += 1;
        }
        assert!(op.data[i] == earlier as f64 && oa.data[i] == earlier as f64);
        i += 1;
    }
}
//@ id=C08.e3.occurrences.list3 props=C08,C06,C09 level=bounded tier=quick budget=900 bound="byte array of shape [3], all truthful mark sets, no map keys" desc="Array::occurrences counts, for each row, the earlier equal rows; the same with and without truthful sortedness marks"
#[kani::proof]
#[kani::unwind(8)]
fn h_occurrences_list3() {
    ck_occurrences(&[3], 3);
}
//@ id=C08.e3.occurrences.mat2x2 props=C08,C06,C09 level=bounded tier=thorough budget=900 bound="byte array of shape [2, 2], all truthful mark sets, no map keys" desc="the same for a matrix"
#[kani::proof]
#[kani::unwind(8)]
fn h_occurrences_mat2x2() {
    ck_occurrences(&[2, 2], 4);
}
// ---------------- first / last (src/algorithm/monadic/mod.rs) ----------------
/// C08: the first / last row (for an empty array: a row of fill values, or an error without a fill);
/// C05: the result is well-formed and truthfully marked; C06: the same with and without truthful marks
// (empty arrays — a row of fill values, or an error — are not registered: the fill loop over a Vec does not finish
//  under CBMC; the branch below is kept for when it does)
fn ck_first_last(shape: &[usize], n: usize, last: bool) {
    let (a, data, _f, _has_keys) = mk(shape, n);
    kani::assume(truthful(&a));
    let fillv: u8 = kani::any();
    let env = Uiua { fill: if kani::any() { Some(fillv as f64) } else { None } };
    let rc = if shape.is_empty() { 1 } else { shape[0] };
    let rl: usize = shape.iter().skip(1).product();
    let r = if last { a.last(&env) } else { a.first(&env) };
    if shape.is_empty() {
        let r = r.unwrap();
        assert!(r.shape.is_empty() && same_u8(&r.data, &data));
        return;
    }
    if rc == 0 {
        match env.fill {
            None => assert!(r.is_err()),
            Some(_) => {
                let r = r.unwrap();
                assert!(same_usize(&r.shape, &shape[1..]) && r.data.len() == rl);
                assert!(r.data.iter().all(|x| *x == fillv));
                assert!(truthful(&r));
            }
        }
        return;
    }
    let r = r.unwrap();
    assert!(same_usize(&r.shape, &shape[1..]));
    let want = if last { &data[(rc - 1) * rl..] } else { &data[..rl] };
    assert!(same_u8(&r.data, want));
    assert!(truthful(&r));
    assert!(r.meta.map_keys.is_none() && r.meta.label.is_none());
}
//@ id=C08.e3.first.list3 props=C08,C05,C06,C09 level=bounded tier=quick budget=900 bound="byte array of shape [3], all truthful mark sets, byte fill present or absent" desc="Array::first is the first row (for an empty array a row of fill values, or an error); the result is well-formed and truthfully marked"
#[kani::proof]
#[kani::unwind(8)]
fn h_first_list3() {
    ck_first_last(&[3], 3, false);
}
//@ id=C08.e3.first.mat2x2 props=C08,C05,C06,C09 level=bounded tier=quick budget=900 bound="byte array of shape [2, 2], all truthful mark sets, byte fill present or absent" desc="Array::first is the first row (for an empty array a row of fill values, or an error); the result is well-formed and truthfully marked"
#[kani::proof]
#[kani::unwind(8)]
fn h_first_mat2x2() {
    ck_first_last(&[2, 2], 4, false);
}
//@ id=C08.e3.first.scalar props=C08,C05,C06,C09 level=bounded tier=thorough budget=900 bound="byte array of shape [], all truthful mark sets, byte fill present or absent" desc="Array::first is the first row (for an empty array a row of fill values, or an error); the result is well-formed and truthfully marked"
#[kani::proof]
#[kani::unwind(8)]
fn h_first_scalar() {
    ck_first_last(&[], 1, false);
}
//@ id=C08.e3.last.list3 props=C08,C05,C06,C09 level=bounded tier=quick budget=900 bound="byte array of shape [3], all truthful mark sets, byte fill present or absent" desc="Array::last is the last row (for an empty array a row of fill values, or an error); the result is well-formed and truthfully marked"
#[kani::proof]
#[kani::unwind(8)]
fn h_last_list3() {
    ck_first_last(&[3], 3, true);
}
//@ id=C08.e3.last.mat2x2 props=C08,C05,C06,C09 level=bounded tier=quick budget=900 bound="byte array of shape [2, 2], all truthful mark sets, byte fill present or absent" desc="Array::last is the last row (for an empty array a row of fill values, or an error); the result is well-formed and truthfully marked"
#[kani::proof]
#[kani::unwind(8)]
fn h_last_mat2x2() {
    ck_first_last(&[2, 2], 4, true);
}
//@ id=C08.e3.last.scalar props=C08,C05,C06,C09 level=bounded tier=thorough budget=900 bound="byte array of shape [], all truthful mark sets, byte fill present or absent" desc="Array::last is the last row (for an empty array a row of fill values, or an error); the result is well-formed and truthfully marked"
#[kani::proof]
#[kani::unwind(8)]
fn h_last_scalar() {
    ck_first_last(&[], 1, true);
}
// ---------------- drop along the leading axis (src/algorithm/dyadic/structure.rs) ----------------
/// C08: `drop n` keeps the rows after the first n (n >= 0) or before the last |n| (n < 0), all of them gone when
/// |n| >= the row count; C05: the result is well-formed, truthfully marked, and if it is a map its key table
/// describes exactly the rows that are left
fn ck_drop(shape: &[usize], n_elems: usize, with_keys: bool) {
    // concrete amounts (a symbolic amount makes every buffer length symbolic, which CBMC does not survive);
    // isize::MIN is among them because the code takes unsigned_abs()
    let amounts: [Result<isize, bool>; 7] = [Ok(0), Ok(1), Ok(3), Ok(7), Ok(-1), Ok(isize::MIN), Err(true)];
    let mut k = 0;
    while k < amounts.len() {
        ck_drop_one(shape, n_elems, with_keys, amounts[k]);
        k += 1;
    }
}
fn ck_drop_one(shape: &[usize], n_elems: usize, with_keys: bool, amount: Result<isize, bool>) {
    let buf: [u8; 6] = kani::any();
    let data = buf[..n_elems].to_vec();
    let bits: u8 = kani::any();
    kani::assume(bits < 16);
    let rc = shape[0];
    let rl: usize = shape.iter().skip(1).product();
    let keys = if with_keys { Some(MapKeys { reversed: 0, token: 1, len: rc }) } else { None };
    let a = Array { shape: Shape(shape.to_vec()), data: Data(data.clone()), meta: ArrayMeta(Some(Arc::new(ArrayMetaInner { flags: ArrayFlags(bits), map_keys: keys, ..Default::default() }))) };
    kani::assume(truthful(&a));
    let env = Uiua { fill: None };
    let n: isize = amount.unwrap_or(0);
    let idx = [amount];
    let all = idx[0].is_err();
    let r = a.drop(&idx, &env).unwrap();
    let gone = if all || n.unsigned_abs() >= rc { rc } else { n.unsigned_abs() };
    let left = rc - gone;
    assert!(r.shape.len() == shape.len() && r.shape[0] == left && same_usize(&r.shape[1..], &shape[1..]));
    let want = if all || n >= 0 { &data[gone * rl..] } else { &data[..left * rl] };
    assert!(same_u8(&r.data, want));
    assert!(truthful(&r));
    if with_keys {
        // the key table follows the rows
        assert!(r.meta.map_keys.is_some() && r.meta.map_keys.as_ref().unwrap().len == left);
    } else {
        assert!(r.meta.map_keys.is_none());
    }
}
//@ id=C08.e3.drop.list3.plain props=C08,C05,C16,C09 level=bounded tier=quick budget=900 bound="byte array of shape [3], amounts 0, 1, 3, 7, -1, isize::MIN and 'all', all truthful mark sets, without map keys (key table abstracted to its row count, per the contracts of MapKeys::drop / take)" desc="Array::drop along the leading axis keeps exactly the documented rows; the result is well-formed and truthfully marked"
#[kani::proof]
#[kani::unwind(9)]
fn h_drop_list3_plain() {
    ck_drop(&[3], 3, false);
}
//@ id=C08.e3.drop.list3.map props=C08,C05,C16,C09 level=bounded tier=quick budget=900 bound="byte array of shape [3], amounts 0, 1, 3, 7, -1, isize::MIN and 'all', all truthful mark sets, with map keys (key table abstracted to its row count, per the contracts of MapKeys::drop / take)" desc="Array::drop along the leading axis keeps exactly the documented rows; the result is well-formed and truthfully marked; the key table describes exactly the rows that are left"
#[kani::proof]
#[kani::unwind(9)]
fn h_drop_list3_map() {
    ck_drop(&[3], 3, true);
}
//@ id=C08.e3.drop.mat2x2.plain props=C08,C05,C16,C09 level=bounded tier=quick budget=900 bound="byte array of shape [2, 2], amounts 0, 1, 3, 7, -1, isize::MIN and 'all', all truthful mark sets, without map keys (key table abstracted to its row count, per the contracts of MapKeys::drop / take)" desc="Array::drop along the leading axis keeps exactly the documented rows; the result is well-formed and truthfully marked"
#[kani::proof]
#[kani::unwind(9)]
fn h_drop_mat2x2_plain() {
    ck_drop(&[2, 2], 4, false);
}
//@ id=C08.e3.drop.mat2x2.map props=C08,C05,C16,C09 level=bounded tier=quick budget=900 bound="byte array of shape [2, 2], amounts 0, 1, 3, 7, -1, isize::MIN and 'all', all truthful mark sets, with map keys (key table abstracted to its row count, per the contracts of MapKeys::drop / take)" desc="Array::drop along the leading axis keeps exactly the documented rows; the result is well-formed and truthfully marked; the key table describes exactly the rows that are left"
#[kani::proof]
#[kani::unwind(9)]
fn h_drop_mat2x2_map() {
    ck_drop(&[2, 2], 4, true);
}
// ---------------- member-of-range on a byte array (optimised `∊⇡n`), src/algorithm/dyadic/mod.rs ----------------
//@ id=C05.e3.memberof_range.byte_arm props=C05 level=bounded tier=quick budget=900 bound="byte array of shape [3], all truthful mark sets, integer bound in 0..=5 or negative" desc="the byte arm of Value::memberof_range rewrites the elements in place: each becomes 1 iff it lies below the bound, and the marks the result carries are truthful"
#[kani::proof]
#[kani::unwind(8)]
fn h_memberof_range_byte_arm() {
    let (a, data, _f, has_keys) = mk(&[3], 3);
    kani::assume(truthful(&a) && !has_keys);
    let b: i8 = kani::any();
    kani::assume(b >= -2 && b <= 5);
    let bound = b as f64;
    let r = memberof_range_byte_arm(a, bound);
    assert!(same_usize(&r.shape, &[3]) && r.data.len() == 3);
    let mut i = 0;
    while i < 3 {
        let want = if bound > 0.0 && (data[i] as f64) < bound { 1 } else { 0 };
        assert!(r.data[i] == want);
        i += 1;
    }
    assert!(truthful(&r));
}
//@ id=C05.e3.meta.mark_helpers props=C05,C09 level=complete tier=quick budget=600 desc="ArrayMeta mark helpers at the bit level: take_sorted_flags / take_value_flags return and clear exactly their group; or_sorted_flags sets only sortedness bits; mark_sorted_* set or clear exactly one bit; reset_flags clears all; an absent meta stays absent unless a bit must be set"
#[kani::proof]
fn h_meta_helpers() {
    let bits: u8 = kani::any();
    kani::assume(bits < 16);
    let f0 = ArrayFlags(bits);
    let mk = |present: bool| if present { ArrayMeta(Some(Arc::new(ArrayMetaInner { flags: f0, map_keys: None, ..Default::default() }))) } else { ArrayMeta(None) };
    let present: bool = kani::any();
    let start = if present { f0 } else { ArrayFlags::NONE };
    let mut m = mk(present);
    let t = m.take_sorted_flags();
    assert!(t.bits() == start.bits() & 12 && m.flags.bits() == start.bits() & !12);
    let mut m = mk(present);
    let t = m.take_value_flags();
    assert!(t.bits() == start.bits() & 3 && m.flags.bits() == start.bits() & !3);
    let mut m = mk(present);
    let o: u8 = kani::any();
    kani::assume(o < 16);
    m.or_sorted_flags(ArrayFlags(o));
    assert!(m.flags.bits() == start.bits() | (o & 12));
    let mut m = mk(present);
    let s: bool = kani::any();
    m.mark_sorted_up(s);
    assert!(m.flags.bits() == if s { start.bits() | 4 } else { start.bits() & !4 });
    let mut m = mk(present);
    m.mark_sorted_down(s);
    assert!(m.flags.bits() == if s { start.bits() | 8 } else { start.bits() & !8 });
    let mut m = mk(present);
    m.reset_flags();
    assert!(m.flags.bits() == 0);
    assert!(mk(present).is_sorted_up() == (start.bits() & 4 != 0) && mk(present).is_sorted_down() == (start.bits() & 8 != 0));
}
//@ id=C05.e3.arrmeth.canary props=C05 level=bounded tier=quick expect=fail budget=600 desc="deliberately false: reverse keeps the ascending mark"
#[kani::proof]
#[kani::unwind(10)]
fn h_canary() {
    let (mut a, _b, f0, _k) = mk(&[3], 3);
    kani::assume(truthful(&a) && f0.contains(ArrayFlags::SORTED_UP) && !f0.contains(ArrayFlags::SORTED_DOWN));
    a.reverse_depth(0);
    assert!(a.meta.is_sorted_up());
}
