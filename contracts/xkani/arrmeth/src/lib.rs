//! E3 family `arrmeth`: an env-free array mutator that permutes data AND marks
//! (`Array::reverse_depth`, src/algorithm/monadic/mod.rs) together with the mark
//! helpers of `ArrayMeta`, `ArrayFlags`' own methods and the crate's debug validator
//! `Array::validate` (src/array.rs), all cut verbatim, over a small `Array` shim.
#![allow(dead_code, unused_variables, unused_mut, unused_imports, clippy::all)]
/// src/profile.rs: a no-op unless the `profile` feature is on
#[macro_export]
macro_rules! profile_function {
    () => {};
}
/// R3: error text is not under contract
#[macro_export]
macro_rules! format {
    ($($t:tt)*) => {
        String::new()
    };
}
pub mod shim;
pub use shim::*;
mod extracted;
pub use extracted::*;
#[cfg(kani)]
mod harness;
