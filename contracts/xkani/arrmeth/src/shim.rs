//! Shim: `Array<T>` = shape + data + meta; `ArrayFlags` is a hand model of the type the
//! `bitflags!` macro generates (same bit values as src/array.rs:261); `MapKeys` only counts
//! how often `reverse` is called.
use std::ops::{BitAnd, BitAndAssign, BitOr, BitOrAssign, Deref, DerefMut, Not};
pub use std::sync::Arc;
pub use std::ptr;
pub use std::cmp::Ordering;

use crate::extracted::*;

#[derive(Debug, Clone, Copy, PartialEq, Eq, Default)]
pub struct ArrayFlags(pub u8);
impl ArrayFlags {
    pub const NONE: Self = ArrayFlags(0);
    pub const BOOLEAN: Self = ArrayFlags(1);
    pub const BOOLEAN_LITERAL: Self = ArrayFlags(2);
    pub const SORTED_UP: Self = ArrayFlags(4);
    pub const SORTED_DOWN: Self = ArrayFlags(8);
    pub const VALUE: Self = ArrayFlags(1 | 2);
    pub const SORTEDNESS: Self = ArrayFlags(4 | 8);
    pub fn empty() -> Self {
        ArrayFlags(0)
    }
    pub fn bits(&self) -> u8 {
        self.0
    }
    pub fn contains(&self, o: Self) -> bool {
        self.0 & o.0 == o.0
    }
    pub fn insert(&mut self, o: Self) {
        self.0 |= o.0
    }
    pub fn remove(&mut self, o: Self) {
        self.0 &= !o.0
    }
    pub fn set(&mut self, o: Self, v: bool) {
        if v { self.insert(o) } else { self.remove(o) }
    }
    pub fn is_empty(&self) -> bool {
        self.0 == 0
    }
}
impl BitAnd for ArrayFlags {
    type Output = Self;
    fn bitand(self, o: Self) -> Self {
        ArrayFlags(self.0 & o.0)
    }
}
impl BitOr for ArrayFlags {
    type Output = Self;
    fn bitor(self, o: Self) -> Self {
        ArrayFlags(self.0 | o.0)
    }
}
impl Not for ArrayFlags {
    type Output = Self;
    fn not(self) -> Self {
        ArrayFlags(!self.0 & 0x0F)
    }
}
impl BitAndAssign for ArrayFlags {
    fn bitand_assign(&mut self, o: Self) {
        self.0 &= o.0
    }
}
impl BitOrAssign for ArrayFlags {
    fn bitor_assign(&mut self, o: Self) {
        self.0 |= o.0
    }
}

#[derive(Debug, Clone, Default, PartialEq, Eq)]
pub struct MapKeys {
    pub reversed: usize,
    /// opaque identity of the key set (the real type is a hash table, src/algorithm/map.rs)
    pub token: u8,
    /// number of live keys = number of rows the table describes (only maintained by drop / take below)
    pub len: usize,
}
impl MapKeys {
    /// contract of MapKeys::drop (obligations C16.e3.map.drop.*): the keys of the first min(n, len) rows are retired
    pub fn drop(&mut self, n: usize) {
        self.len -= if n < self.len { n } else { self.len };
    }
    /// contract of MapKeys::take (obligations C16.e3.map.take.*): only the keys of the first min(n, len) rows stay
    pub fn take(&mut self, n: usize) {
        self.len = if n < self.len { n } else { self.len };
    }
    pub fn reverse(&mut self) {
        self.reversed += 1;
    }
    /// ASSUMED CONTRACT (src/algorithm/map.rs MapKeys::normalized + Array::map): `map(normalized(k))` installs
    /// a key set that is observably `k` again.  Modelled by carrying the token through a `Value`.
    pub fn normalized(self) -> Value {
        Value::Keys(self.token, self.reversed)
    }
}
#[derive(Debug, Clone, PartialEq, Eq)]
pub enum Value {
    Keys(u8, usize),
    /// a byte array seen as a value (only as the receiver of `keep`, which is not modelled)
    Bytes,
}
impl From<Array<u8>> for Value {
    fn from(_a: Array<u8>) -> Value {
        Value::Bytes
    }
}
impl Value {
    /// not modelled: only reached for map arrays, which the harnesses of the callers exclude
    pub fn keep(self, _kept: Value, _env: &Uiua) -> UiuaResult<Value> {
        panic!("Value::keep is outside the modelled cases")
    }
}
#[derive(Clone, Copy)]
pub struct Context {
    pub fill: Option<f64>,
}
impl Context {
    pub const NONE: Context = Context { fill: None };
}
/// stand-ins for the three foreign field types of ArrayMetaInner
pub type EcoString = u8;
#[derive(Debug, Clone, Default, PartialEq, Eq)]
pub struct MetaPtr(pub u8);
#[derive(Debug, Clone, Default, PartialEq, Eq)]
pub struct HandleKind(pub u8);
pub type CowSlice<T> = Data<T>;
impl<const N: usize> From<[usize; N]> for Shape {
    fn from(a: [usize; N]) -> Self {
        Shape(a.to_vec())
    }
}
impl From<usize> for Shape {
    fn from(n: usize) -> Self {
        Shape(vec![n])
    }
}
impl<T, const N: usize> From<[T; N]> for Data<T> {
    fn from(a: [T; N]) -> Self {
        Data(Vec::from(a))
    }
}
impl<T> Array<T> {
    /// src/array.rs:418 Array::new (same body)
    pub fn new(shape: impl Into<Shape>, data: impl Into<CowSlice<T>>) -> Self {
        let shape = shape.into();
        let data = data.into();
        validate_shape(&shape, data.len());
        Self { shape, data, meta: ArrayMeta::default() }
    }
    /// model of Array::map (src/algorithm/map.rs:50): installs the key set carried by `keys`
    pub fn map(&mut self, keys: Value, _ctx: Context) -> UiuaResult {
        let Value::Keys(token, reversed) = keys else { panic!("map: keys are not a key set (outside the modelled cases)") };
        self.meta.map_keys = Some(MapKeys { reversed, token, len: 0 });
        Ok(())
    }
}
#[derive(Debug, Clone, Default)]
pub struct Shape(pub Vec<usize>);
impl Deref for Shape {
    type Target = [usize];
    fn deref(&self) -> &[usize] {
        &self.0
    }
}
impl DerefMut for Shape {
    fn deref_mut(&mut self) -> &mut [usize] {
        &mut self.0
    }
}
/// rayon stand-ins (ASSUMPTION: rayon's parallel iteration visits the same items as the sequential one;
/// the parallel branches are only taken beyond 500 sub-arrays, outside the bounded shapes)
pub trait IntoParallelIterator: IntoIterator + Sized {
    fn into_par_iter(self) -> Self::IntoIter {
        self.into_iter()
    }
}
impl IntoParallelIterator for std::ops::Range<usize> {}
pub trait ParallelSliceMut<T> {
    fn par_chunks_mut(&mut self, n: usize) -> std::slice::ChunksMut<'_, T>;
    /// rayon's par_sort_by is a stable sort, like slice::sort_by
    fn par_sort_by(&mut self, f: impl Fn(&T, &T) -> Ordering);
}
impl<T> ParallelSliceMut<T> for [T] {
    fn par_sort_by(&mut self, f: impl Fn(&T, &T) -> Ordering) {
        self.sort_by(f)
    }
    fn par_chunks_mut(&mut self, n: usize) -> std::slice::ChunksMut<'_, T> {
        self.chunks_mut(n)
    }
}
impl<T> Array<T> {
    /// src/array.rs:452 `row_slices` (the real one builds the slices with from_raw_parts; same rows)
    pub fn row_slices(&self) -> impl Iterator<Item = &[T]> {
        let row_len = self.row_len();
        (0..self.row_count()).map(move |i| &self.data[i * row_len..(i + 1) * row_len])
    }
    /// src/algorithm/map.rs:160
    pub fn is_map(&self) -> bool {
        self.meta.map_keys.as_ref().is_some()
    }
}
#[derive(Debug, Clone, Default)]
pub struct Data<T>(pub Vec<T>);
impl<T> Data<T> {
    pub fn as_mut_slice(&mut self) -> &mut [T] {
        &mut self.0
    }
    pub fn len(&self) -> usize {
        self.0.len()
    }
}
impl<T> Deref for Data<T> {
    type Target = [T];
    fn deref(&self) -> &[T] {
        &self.0
    }
}
pub struct Array<T> {
    pub shape: Shape,
    pub data: Data<T>,
    pub meta: ArrayMeta,
}
impl<T> Array<T> {
    pub fn rank(&self) -> usize {
        self.shape.len()
    }
    pub fn row_count(&self) -> usize {
        if self.shape.is_empty() { 1 } else { self.shape[0] }
    }
    pub fn row_len(&self) -> usize {
        self.shape.iter().skip(1).product()
    }
}
pub trait ArrayValue: ArrayCmp + Clone + std::fmt::Debug + Sized + ScalarFill {
    const NAME: &'static str;
    fn dbg_validate(_arr: &Array<Self>) {}
}
impl ArrayValue for u8 {
    const NAME: &'static str = "number";
    // src/array.rs:1145 (verbatim semantics): a boolean-marked byte array holds only 0/1
    fn dbg_validate(arr: &Array<Self>) {
        if arr.meta.flags.is_boolean() {
            assert!(!arr.data.iter().any(|b| *b > 1), "Array marked as boolean contains a value > 1");
        }
    }
}

// ---- interpreter stand-in for the env-taking array methods: only the scalar fill and error construction ----
pub struct FillValue<T> {
    pub value: T,
}
#[derive(Debug)]
pub struct UiuaError;
pub type UiuaResult<T = ()> = Result<T, UiuaError>;
pub struct Uiua {
    /// the numeric scalar fill in scope, if any
    pub fill: Option<f64>,
}
pub type Ctx = Context;
impl Uiua {
    pub fn ctx(&self) -> Ctx {
        Context { fill: self.fill }
    }
    pub fn error(&self, _m: impl Sized) -> UiuaError {
        UiuaError
    }
}
pub trait ScalarFill: Sized {
    fn from_f64(x: f64) -> Self;
}
impl ScalarFill for f64 {
    fn from_f64(x: f64) -> f64 {
        x
    }
}
impl Ctx {
    /// src/context.rs:117 (the fill stack itself is not modelled: a fill is present or absent)
    pub fn scalar_fill<T: ScalarFill>(&self) -> Result<FillValue<T>, &'static str> {
        match self.fill {
            Some(x) => Ok(FillValue { value: T::from_f64(x) }),
            None => Err(""),
        }
    }
}

// ---- containers used by classify / deduplicate / unique / count_unique / occurrences ----
/// ASSUMPTION: a std HashMap / HashSet keyed by `ArrayCmpSlice` behaves as a map / set under the key's `==`
/// (true iff its Hash agrees with its Eq: obligations C15.e1.*.eq_implies_hash_eq).  Modelled as association lists.
pub struct HashMap<K, V>(pub Vec<(K, V)>);
impl<K: PartialEq, V> HashMap<K, V> {
    pub fn new() -> Self {
        // capacity reserved up front: no reallocation inside the verified loops
        HashMap(Vec::with_capacity(4))
    }
    pub fn len(&self) -> usize {
        self.0.len()
    }
    pub fn entry(&mut self, k: K) -> MapEntry<'_, K, V> {
        MapEntry(self, k)
    }
}
pub struct MapEntry<'a, K, V>(&'a mut HashMap<K, V>, K);
impl<'a, K: PartialEq, V> MapEntry<'a, K, V> {
    pub fn or_insert(self, v: V) -> &'a mut V {
        let mut i = 0;
        while i < self.0.0.len() {
            if self.0.0[i].0 == self.1 {
                return &mut self.0.0[i].1;
            }
            i += 1;
        }
        self.0.0.push((self.1, v));
        let n = self.0.0.len();
        &mut self.0.0[n - 1].1
    }
}
pub struct HashSet<K>(pub Vec<K>);
impl<K: PartialEq> HashSet<K> {
    pub fn new() -> Self {
        HashSet(Vec::with_capacity(4))
    }
    pub fn insert(&mut self, k: K) -> bool {
        let mut i = 0;
        while i < self.0.len() {
            if self.0[i] == k {
                return false;
            }
            i += 1;
        }
        self.0.push(k);
        true
    }
}
#[derive(Debug, Clone, Default)]
pub struct EcoVec<T>(pub Vec<T>);
impl<T: Clone> EcoVec<T> {
    pub fn make_mut(&mut self) -> &mut [T] {
        &mut self.0
    }
}
impl<T> From<EcoVec<T>> for Data<T> {
    fn from(v: EcoVec<T>) -> Data<T> {
        Data(v.0)
    }
}
#[macro_export]
macro_rules! eco_vec {
    ($e:expr; $n:expr) => {
        $crate::shim::EcoVec(vec![$e; $n])
    };
}
impl<T: Clone> Data<T> {
    pub fn new() -> Self {
        Data(Vec::with_capacity(8))
    }
    pub fn extend_from_slice(&mut self, s: &[T]) {
        self.0.extend_from_slice(s)
    }
    pub fn truncate(&mut self, n: usize) {
        self.0.truncate(n)
    }
}
impl<T> Array<T> {
    pub fn element_count(&self) -> usize {
        self.data.len()
    }
}
impl From<u8> for Array<u8> {
    fn from(x: u8) -> Self {
        Array { shape: Shape(Vec::new()), data: Data(vec![x]), meta: ArrayMeta::default() }
    }
}
impl FromIterator<usize> for Shape {
    fn from_iter<I: IntoIterator<Item = usize>>(it: I) -> Self {
        Shape(it.into_iter().collect())
    }
}

// ---- what Array::first / Array::last need ----
impl Shape {
    /// src/shape.rs:62
    pub fn remove(&mut self, index: usize) -> usize {
        self.0.remove(index)
    }
}
impl From<&[usize]> for Shape {
    fn from(s: &[usize]) -> Shape {
        Shape(s.to_vec())
    }
}
impl<T: Clone> Data<T> {
    /// src/cowslice.rs:237
    pub fn extend_repeat(&mut self, elem: &T, count: usize) {
        let mut i = 0;
        while i < count {
            self.0.push(elem.clone());
            i += 1;
        }
    }
}
impl<T: Clone> From<&[T]> for Data<T> {
    fn from(s: &[T]) -> Data<T> {
        Data(s.to_vec())
    }
}
impl UiuaError {
    /// src/error.rs:152 (marks the error as fill-related: not under contract)
    pub fn fill(self) -> Self {
        self
    }
}
pub enum Primitive {
    First,
    Last,
}
impl Primitive {
    pub fn format(&self) -> &'static str {
        ""
    }
}
impl ScalarFill for u8 {
    fn from_f64(x: f64) -> u8 {
        x as u8
    }
}

// ---- what Array::drop / drop_impl need ----
impl Shape {
    pub fn push(&mut self, d: usize) {
        self.0.push(d)
    }
}
impl<T: Clone> Data<T> {
    /// src/cowslice.rs slice: a new handle on a sub-range of the elements
    pub fn slice(&self, r: impl std::ops::RangeBounds<usize>) -> Data<T> {
        use std::ops::Bound::*;
        let lo = match r.start_bound() {
            Included(x) => *x,
            Excluded(x) => *x + 1,
            Unbounded => 0,
        };
        let hi = match r.end_bound() {
            Included(x) => *x + 1,
            Excluded(x) => *x,
            Unbounded => self.0.len(),
        };
        Data(self.0[lo..hi].to_vec())
    }
}
impl<T: Clone> Array<T> {
    /// model of Array::rows: the rows as arrays of their own (no metadata)
    pub fn rows(&self) -> impl Iterator<Item = Array<T>> + '_ {
        let rl = self.row_len();
        let shape = Shape(self.shape.0[1..].to_vec());
        (0..self.row_count()).map(move |i| Array { shape: shape.clone(), data: Data(self.data.0[i * rl..(i + 1) * rl].to_vec()), meta: ArrayMeta::default() })
    }
    /// model of Array::from_row_arrays for rows of equal shape (the only case the extracted code produces here)
    pub fn from_row_arrays(rows: Vec<Array<T>>, _env: &Uiua) -> UiuaResult<Array<T>> {
        let mut shape = vec![rows.len()];
        if let Some(r) = rows.first() {
            shape.extend_from_slice(&r.shape.0);
        }
        let mut data = Vec::new();
        for r in rows {
            data.extend_from_slice(&r.data.0);
        }
        Ok(Array { shape: Shape(shape), data: Data(data), meta: ArrayMeta::default() })
    }
}
