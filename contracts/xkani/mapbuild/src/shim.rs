//! Shim: values are a list of bytes (rank 1), keys a list of scalar byte keys.  `MapKeys::insert` is the
//! contract of the real one: a key already present gets the new row number and its old one is reported;
//! a new key is added.  (The probe loops behind it are obligations of family `map`.)
use std::ops::{Deref, DerefMut};

#[derive(Debug)]
pub struct UiuaError;
pub type UiuaResult<T = ()> = Result<T, UiuaError>;
#[derive(Clone, Copy)]
pub struct Context;
impl Context {
    pub fn error(&self, _m: impl Sized) -> UiuaError {
        UiuaError
    }
}
/// the key array: a list of scalar keys (rank 1) or one scalar key (rank 0); `table` is the model's record of
/// which key sits in which cell of the key table (cell order = first insertion)
#[derive(Clone, Debug, Default)]
pub struct Value {
    pub rows: Vec<u8>,
    pub rank: usize,
    pub table: Vec<u8>,
    pub shape: KeyShape,
}
/// the key array's shape is only touched to turn a scalar key into a one-row list
#[derive(Clone, Debug, Default)]
pub struct KeyShape;
impl KeyShape {
    pub fn prepend(&mut self, _d: usize) {}
}
/// in this model every cell of a key table handed to `join` holds a live key (no free cells)
pub trait MapItem {
    fn is_any_empty_cell(&self) -> bool {
        false
    }
    fn is_any_tombstone(&self) -> bool {
        false
    }
}
impl MapItem for Value {}
impl Value {
    pub fn row_count(&self) -> usize {
        self.rows.len()
    }
    pub fn rank(&self) -> usize {
        self.rank
    }
    pub fn into_rows(self) -> impl Iterator<Item = Value> {
        self.rows.into_iter().map(|k| Value { rows: vec![k], rank: 0, table: Vec::new(), shape: KeyShape })
    }
}
#[derive(Clone, Debug, Default)]
pub struct MapKeys {
    pub keys: Value,
    pub indices: Vec<usize>,
    pub len: usize,
    pub fix_stack: Vec<(usize, Vec<usize>)>,
}
impl MapKeys {
    /// CONTRACT of src/algorithm/map.rs MapKeys::insert
    pub fn insert(&mut self, key: Value, index: usize, _ctx: Context) -> UiuaResult<Option<usize>> {
        let k = key.rows[0];
        let mut i = 0;
        while i < self.keys.table.len() {
            if self.keys.table[i] == k {
                let old = self.indices[i];
                self.indices[i] = index;
                return Ok(Some(old));
            }
            i += 1;
        }
        self.keys.table.push(k);
        self.indices.push(index);
        self.len += 1;
        Ok(None)
    }
}
#[derive(Clone, Debug, Default)]
pub struct ArrayMeta {
    pub map_keys: Option<MapKeys>,
}
#[derive(Clone, Debug, Default)]
pub struct Shape(pub Vec<usize>);
impl Deref for Shape {
    type Target = [usize];
    fn deref(&self) -> &[usize] {
        &self.0
    }
}
impl DerefMut for Shape {
    fn deref_mut(&mut self) -> &mut [usize] {
        &mut self.0
    }
}
#[derive(Clone, Debug, Default)]
pub struct Data<T>(pub Vec<T>);
impl<T> Data<T> {
    pub fn as_mut_slice(&mut self) -> &mut [T] {
        &mut self.0
    }
    pub fn truncate(&mut self, n: usize) {
        self.0.truncate(n)
    }
}
impl<T> Deref for Data<T> {
    type Target = [T];
    fn deref(&self) -> &[T] {
        &self.0
    }
}
#[derive(Clone, Debug, Default)]
pub struct Array<T> {
    pub shape: Shape,
    pub data: Data<T>,
    pub meta: ArrayMeta,
}
impl<T> Array<T> {
    pub fn row_count(&self) -> usize {
        if self.shape.is_empty() { 1 } else { self.shape[0] }
    }
    pub fn row_len(&self) -> usize {
        self.shape.iter().skip(1).product()
    }
}
pub trait ArrayValue: Clone {}
impl ArrayValue for u8 {}

pub struct Uiua;
impl Uiua {
    pub fn ctx(&self) -> Context {
        Context
    }
}
