//! E3 family `mapbuild`: `Array::map` (src/algorithm/map.rs: building a map array from a key array and a value
//! array, including duplicate keys) and `Array::remove_row` (src/algorithm/dyadic/structure.rs), cut verbatim,
//! over a key table that is modelled by the CONTRACT of `MapKeys::insert` (obligations C16.e3.map.insert_impl.*).
#![allow(dead_code, unused_variables, unused_mut, unused_imports, clippy::all)]
/// R3: error text is not under contract
#[macro_export]
macro_rules! format {
    ($($t:tt)*) => {
        String::new()
    };
}
/// R4: debug-only bounds check of remove_row (the harness asserts the same bound itself)
#[macro_export]
macro_rules! debug_assert {
    ($c:expr $(, $($t:tt)*)?) => {
        assert!($c)
    };
}
pub mod shim;
pub use shim::*;
mod extracted;
pub use extracted::*;
#[cfg(kani)]
mod harness;
