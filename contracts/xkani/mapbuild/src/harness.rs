//! C16: a map built from keys with duplicates is the finite map in which the latest value of each key wins;
//! the rows that remain are those at the last occurrence of each key, in their original order, and every key
//! points at its own row.  C05: the key table points at existing rows only.
use crate::*;

/// three rows: every duplicate pattern
fn ck_map_patterns3() {
    let pats: [[u8; 4]; 5] = [[0, 1, 0, 9], [0, 0, 0, 9], [0, 0, 1, 9], [0, 1, 1, 9], [0, 1, 2, 9]];
    let mut k = 0;
    while k < pats.len() {
        ck_map_keys(3, pats[k]);
        k += 1;
    }
}
/// concrete key patterns (keeps every Vec length concrete), symbolic values
fn ck_map_patterns() {
    let pats: [[u8; 4]; 8] = [[0, 1, 1, 0], [0, 1, 0, 1], [0, 0, 1, 1], [0, 1, 2, 0], [0, 0, 0, 0], [0, 1, 2, 1], [0, 1, 2, 3], [1, 0, 0, 1]];
    let mut k = 0;
    while k < pats.len() {
        ck_map_keys(4, pats[k]);
        k += 1;
    }
}
fn ck_map_keys(n: usize, kbuf: [u8; 4]) {
    ck_map_keys_via(n, kbuf, false);
    ck_map_keys_via(n, kbuf, true);
}
/// `args_variant`: through the block of `map_args` (what the `map` primitive runs) instead of `Array::map`
fn ck_map_keys_via(n: usize, kbuf: [u8; 4], args_variant: bool) {
    let vbuf: [u8; 4] = kani::any();
    let keys = Value { rows: kbuf[..n].to_vec(), rank: 1, table: Vec::with_capacity(4), shape: KeyShape };
    let mut values = Array { shape: Shape(vec![n]), data: Data(vbuf[..n].to_vec()), meta: ArrayMeta::default() };
    let r = if args_variant {
        let table = MapKeys { keys: keys.clone(), indices: Vec::with_capacity(4), len: 0, fix_stack: Vec::new() };
        values.map_args_tail(keys, table, &Uiua)
    } else {
        values.map(keys, Context)
    };
    assert!(r.is_ok());
    let mk = values.meta.map_keys.as_ref().unwrap();
    // reference: the last occurrence of each key survives
    let mut survivors = 0;
    let mut i = 0;
    while i < n {
        let mut last = true;
        let mut j = i + 1;
        while j < n {
            if kbuf[j] == kbuf[i] {
                last = false;
            }
            j += 1;
        }
        if last {
            // this row is row number `survivors` of the result, and its key points at it
            assert!(survivors < values.data.len() && values.data[survivors] == vbuf[i]);
            let mut c = 0;
            let mut found = false;
            while c < mk.keys.table.len() {
                if mk.keys.table[c] == kbuf[i] {
                    assert!(mk.indices[c] == survivors);
                    found = true;
                }
                c += 1;
            }
            assert!(found);
            survivors += 1;
        }
        i += 1;
    }
    assert!(values.shape[0] == survivors && values.data.len() == survivors && mk.len == survivors && mk.indices.len() == survivors);
}
//@ id=C16.e3.mapbuild.map.len3 props=C16,C09 level=bounded tier=quick budget=900 bound="3 scalar keys in all 5 duplicate patterns (010, 000, 001, 011, 012), symbolic values; both through Array::map and through the block of Array::map_args" desc="Array::map with duplicate keys: the latest value of each key wins, the surviving rows keep their order, every key points at its own row, the table describes exactly the rows that are left (key table modelled by the contract of MapKeys::insert)"
#[kani::proof]
#[kani::unwind(10)]
fn h_map_3() {
    ck_map_patterns3();
}
//@ id=C16.e3.mapbuild.map.len4 props=C16,C09 level=bounded tier=quick budget=900 bound="4 scalar keys in 8 fixed duplicate patterns (0110, 0101, 0011, 0120, 0000, 0121, 0123, 1001), symbolic values; both through Array::map and through the block of Array::map_args" desc="the same for four rows (two different keys can be replaced, in either order)"
#[kani::proof]
#[kani::unwind(10)]
fn h_map_4() {
    ck_map_patterns();
}
// ---------------- MapKeys::join: renumbering after keys of the second map replaced rows of the first ----------------
/// `join` has re-pointed every replaced key at its new row; the rows in `to_remove` (in the order their keys were
/// replaced — any order) are about to be deleted by the caller, so every surviving row number must drop by the
/// number of deleted rows before it.
fn ck_join_renumber(nremove: usize) {
    let ix: [usize; 4] = kani::any();
    let rm: [usize; 2] = kani::any();
    kani::assume(rm[0] < 6 && rm[1] < 6 && rm[0] != rm[1]);
    let mut i = 0;
    while i < 4 {
        kani::assume(ix[i] < 6 && ix[i] != rm[0] && (nremove < 2 || ix[i] != rm[1]));
        let mut j = 0;
        while j < i {
            kani::assume(ix[j] != ix[i]);
            j += 1;
        }
        i += 1;
    }
    let mut indices = Vec::with_capacity(4);
    indices.extend_from_slice(&ix);
    let mut to_remove = Vec::with_capacity(2);
    to_remove.extend_from_slice(&rm[..nremove]);
    let mut mk = MapKeys { keys: Value::default(), indices, len: 4, fix_stack: Vec::new() };
    mk.join_renumber(to_remove);
    let mut i = 0;
    while i < 4 {
        let mut before = 0;
        let mut t = 0;
        while t < nremove {
            if rm[t] < ix[i] {
                before += 1;
            }
            t += 1;
        }
        assert!(mk.indices[i] == ix[i] - before);
        i += 1;
    }
}
//@ id=C16.e3.mapbuild.join_renumber.one props=C16,C09 level=bounded tier=quick budget=600 bound="4 keys on distinct rows below 6, one row to delete" desc="MapKeys::join, renumbering loop: every surviving row number drops by the number of deleted rows before it"
#[kani::proof]
#[kani::unwind(6)]
fn h_join_renumber_1() {
    ck_join_renumber(1);
}
//@ id=C16.e3.mapbuild.join_renumber.two props=C16,C09 level=bounded tier=quick budget=600 bound="4 keys on distinct rows below 6, two rows to delete, reported in either order" desc="the same when two keys of the second map replaced rows of the first, whatever order the rows are reported in"
#[kani::proof]
#[kani::unwind(6)]
fn h_join_renumber_2() {
    ck_join_renumber(2);
}
//@ id=C16.e3.mapbuild.canary props=C16 level=bounded tier=quick expect=fail budget=600 desc="deliberately false: building a map never removes a row"
#[kani::proof]
#[kani::unwind(6)]
fn h_mapbuild_canary() {
    let keys = Value { rows: vec![1, 1], rank: 1, table: Vec::with_capacity(4), shape: KeyShape };
    let mut values = Array { shape: Shape(vec![2]), data: Data(vec![5u8, 6]), meta: ArrayMeta::default() };
    let _ = values.map(keys, Context);
    assert!(values.shape[0] == 2);
}
