//! C16: a map built from keys with duplicates is the finite map in which the latest value of each key wins;
//! the rows that remain are those at the last occurrence of each key, in their original order, and every key
//! points at its own row.  C05: the key table points at existing rows only.
use crate::*;

/// three rows: every duplicate pattern
fn ck_map_patterns3() {
    let pats: [[u8; 4]; 5] = [[0, 1, 0, 9], [0, 0, 0, 9], [0, 0, 1, 9], [0, 1, 1, 9], [0, 1, 2, 9]];
    let mut k = 0;
    while k < pats.len() {
        ck_map_keys(3, pats[k]);
        k += 1;
    }
}
/// concrete key patterns (keeps every Vec length concrete), symbolic values
fn ck_map_patterns() {
    let pats: [[u8; 4]; 8] = [[0, 1, 1, 0], [0, 1, 0, 1], [0, 0, 1, 1], [0, 1, 2, 0], [0, 0, 0, 0], [0, 1, 2, 1], [0, 1, 2, 3], [1, 0, 0, 1]];
    let mut k = 0;
    while k < pats.len() {
        ck_map_keys(4, pats[k]);
        k += 1;
    }
}
fn ck_map_keys(n: usize, kbuf: [u8; 4]) {
    ck_map_keys_via(n, kbuf, false);
    ck_map_keys_via(n, kbuf, true);
}
/// `args_variant`: through the block of `map_args` (what the `map` primitive runs) instead of `Array::map`
fn ck_map_keys_via(n: usize, kbuf: [u8; 4], args_variant: bool) {
    let vbuf: [u8; 4] = kani::any();
    let keys = Value { rows: kbuf[..n].to_vec(), rank: 1, table: Vec::with_capacity(4), shape: KeyShape };
    let mut values = Array { shape: Shape(vec![n]), data: Data(vbuf[..n].to_vec()), meta: ArrayMeta::default() };
    let r = if args_variant {
        let table = MapKeys { keys: keys.clone(), indices: Vec::with_capacity(4), len: 0, fix_stack: Vec::new() };
        values.map_args_tail(keys, table, &Uiua)
    } else {
        values.map(keys, Context)
    };
    assert!(r.is_ok());
    let mk = values.meta.map_keys.as_ref().unwrap();
    // reference: the last occurrence of each key survives
    let mut survivors = 0;
    let mut i = 0;
    while i < n {
        let mut last = true;
        let mut j = i + 1;
        while j < n {
            if kbuf[j] == kbuf[i] {
                last = false;
            }
            j += 1;
        }
        if last {
            // this row is row number `survivors` of the result, and its key points at it
            assert!(survivors < values.data.len() && values.data[survivors] == vbuf[i]);
            let mut c = 0;
            let mut found = false;
            while c < mk.keys.table.len() {
                if mk.keys.table[c] == kbuf[i] {
                    assert!(mk.indices[c] == survivors);
                    found = true;
                }
                c += 1;
            }
            assert!(found);
            survivors += 1;
        }
        i += 1;
    }
    assert!(values.shape[0] == survivors && values.data.len() == survivors && mk.len == survivors && mk.indices.len() == survivors);
}
//@ id=C16.e3.mapbuild.map.len3 props=C16,C09 level=bounded tier=quick budget=900 bound="3 scalar keys in all 5 duplicate patterns (010, 000, 001, 011, 012), symbolic values; both through Array::map and through the block of Array::map_args" desc="Array::map with duplicate keys: the latest value of each key wins, the surviving rows keep their order, every key points at its own row, the table describes exactly the rows that are left (key table modelled by the contract of MapKeys::insert)"
#[kani::proof]
#[kani::unwind(10)]
fn h_map_3() {
    ck_map_patterns3();
}
//@ id=C16.e3.mapbuild.map.len4 props=C16,C09 level=bounded tier=quick budget=900 bound="4 scalar keys in 8 fixed duplicate patterns (0110, 0101, 0011, 0120, 0000, 0121, 0123, 1001), symbolic values; both through Array::map and through the block of Array::map_args" desc="the same for four rows (two different keys can be replaced, in either order)"
#[kani::proof]
#[kani::unwind(10)]
fn h_map_4() {
    ck_map_patterns();
}
// ---------------- MapKeys::join: the key table of `⊂` on two maps ----------------
fn table_of(keys: &[u8], indices: &[usize]) -> MapKeys {
    let mut t = Vec::with_capacity(8);
    t.extend_from_slice(keys);
    let mut ix = Vec::with_capacity(8);
    ix.extend_from_slice(indices);
    MapKeys { keys: Value { rows: keys.to_vec(), rank: 1, table: t, shape: KeyShape }, indices: ix, len: keys.len(), fix_stack: Vec::new() }
}
/// self = keys 1 2 3 4 on rows 0..4 (cell order = row order), other = two keys on rows 0..2 (in either cell order).
/// The caller (Array::join) appends other's rows after self's and then removes the reported rows, highest first.
fn ck_join(okeys: [u8; 2], oidx: [usize; 2]) {
    let skeys = [1u8, 2, 3, 4];
    let mut a = table_of(&skeys, &[0, 1, 2, 3]);
    let b = table_of(&okeys, &oidx);
    let r = a.join(b, Context);
    let mut to_remove = r.unwrap();
    // what the caller does with the value rows 0..6 (ids): remove the replaced ones, highest first
    to_remove.sort_unstable();
    let mut rows: Vec<usize> = Vec::with_capacity(8);
    rows.extend_from_slice(&[0, 1, 2, 3, 4, 5]);
    let mut k = to_remove.len();
    while k > 0 {
        k -= 1;
        rows.remove(to_remove[k]);
    }
    // every key of the joined table points at its own row: other's row if other has the key, else self's
    assert!(a.len == a.keys.table.len() && a.indices.len() == a.len && rows.len() == a.len);
    let mut c = 0;
    while c < a.keys.table.len() {
        let key = a.keys.table[c];
        let want = if key == okeys[0] {
            4 + oidx[0]
        } else if key == okeys[1] {
            4 + oidx[1]
        } else {
            (key - 1) as usize
        };
        assert!(a.indices[c] < rows.len() && rows[a.indices[c]] == want);
        c += 1;
    }
}
//@ id=C16.e3.mapbuild.join.two_replaced props=C16,C09 level=bounded tier=quick budget=900 bound="self = keys 1 2 3 4, other = two keys in 8 fixed patterns (both / one / none already present; ascending and descending row order), dense tables" desc="MapKeys::join: after the caller has removed the reported rows, every key of the joined table points at its own row (other's row where other has the key) and the table describes exactly the rows that are left (key table modelled by the contract of MapKeys::insert)"
#[kani::proof]
#[kani::unwind(10)]
fn h_join_two() {
    let pats: [([u8; 2], [usize; 2]); 8] = [
        ([1, 3], [0, 1]), ([1, 3], [1, 0]), ([3, 1], [0, 1]), ([2, 4], [0, 1]),
        ([4, 1], [0, 1]), ([5, 2], [0, 1]), ([5, 6], [0, 1]), ([1, 2], [1, 0]),
    ];
    let mut k = 0;
    while k < pats.len() {
        ck_join(pats[k].0, pats[k].1);
        k += 1;
    }
}
//@ id=C16.e3.mapbuild.canary props=C16 level=bounded tier=quick expect=fail budget=600 desc="deliberately false: building a map never removes a row"
#[kani::proof]
#[kani::unwind(6)]
fn h_mapbuild_canary() {
    let keys = Value { rows: vec![1, 1], rank: 1, table: Vec::with_capacity(4), shape: KeyShape };
    let mut values = Array { shape: Shape(vec![2]), data: Data(vec![5u8, 6]), meta: ArrayMeta::default() };
    let _ = values.map(keys, Context);
    assert!(values.shape[0] == 2);
}
