"""E3 families: which text is cut out of /repo for each small crate."""
UIUA = r"^impl Uiua \{"
PUBCRATE = ("R1", r"\bpub\(crate\)\s+", "pub ", "visibility widened")

FAMILIES = {}

FAMILIES["stack"] = {
    "anchor": "src/run.rs stack helpers, context instructions, exec_clean_stack; src/run_prim.rs run_prim_mod arms Fork / Bracket / Memo; src/algorithm/mod.rs try_/try_sig; parser/src/signature.rs",
    "bound": "stack length <= 4, under-stack length <= 2, counts <= 5 (concrete sizes, symbolic contents)",
    "header": "use crate::shim::*;\nuse std::borrow::BorrowMut;\n",
    "rewrites": (PUBCRATE,),
    # parametricity guard: no Value method other than clone may appear in the extracted text
    "forbid": r"\.(unbox|unboxed|shape|row_count|rank|as_[a-z_]+|try_shrink|into_rows|validate)\(",
    "dropped": "R3 error text (format! shim macro), debug_assert! (macro shim); everything else verbatim",
    "groups": [
        {"prefix": "#[derive(Clone, Copy, PartialEq, Eq, Default, Debug)]\n",
         "items": [{"kind": "block", "name": "struct Signature", "file": "parser/src/signature.rs", "header": r"^pub struct Signature \{",
                    "rewrites": (("R1", r"(?m)^    (args|outputs|under_args|under_outputs): u16", r"    pub \1: u16", "field visibility"),
                                 ("R4", r"(?m)^\s*///[^\n]*\n", "", "doc comment dropped"))},
                   {"kind": "block", "name": "impl Signature", "file": "parser/src/signature.rs", "header": r"^impl Signature \{"}]},
        {"wrap": "impl Uiua", "items": [
            {"kind": "fn", "file": "src/run.rs", "impl": UIUA, "fn": f} for f in [
                "require_height", "pop", "push", "push_under", "push_all", "pop_n", "copy_n", "copy_n_down", "prepare_fork",
                "copy_nth", "dup_values", "insert_stack", "remove_n", "rotate_up", "rotate_down", "n_mut",
                "truncate_stack", "clone_stack_top", "stack_height", "under_stack_height", "exec_clean_stack",
                "monadic_ref", "monadic_env", "monadic_ref_env", "monadic_mut", "monadic_mut_env",
                "dyadic_rr", "dyadic_oo_env", "dyadic_rr_env", "dyadic_ro_env",
            ]]},
        {"items": [
            {"kind": "closure_in_arm", "file": "src/run.rs", "impl": UIUA, "fn": "exec_impl", "arm": r"Node::PushUnder\(n, span\)",
             "name": "PushUnder closure", "sig": "pub fn ctx_push_under(env: &mut Uiua, n: usize) -> UiuaResult"},
            {"kind": "closure_in_arm", "file": "src/run.rs", "impl": UIUA, "fn": "exec_impl", "arm": r"Node::CopyToUnder\(n, span\)",
             "name": "CopyToUnder closure", "sig": "pub fn ctx_copy_to_under(env: &mut Uiua, n: usize) -> UiuaResult"},
            {"kind": "closure_in_arm", "file": "src/run.rs", "impl": UIUA, "fn": "exec_impl", "arm": r"Node::PopUnder\(n, span\)",
             "name": "PopUnder closure", "sig": "pub fn ctx_pop_under(env: &mut Uiua, n: usize) -> UiuaResult"},
            {"kind": "arm", "name": "run_prim_mod Fork arm", "file": "src/run_prim.rs", "fn": "run_prim_mod", "arm": r"Primitive::Fork",
             "sig": "pub fn rt_arm_fork(mut ops: Ops, env: &mut Uiua) -> UiuaResult", "epilogue_ok": True},
            {"kind": "arm", "name": "run_prim_mod Bracket arm", "file": "src/run_prim.rs", "fn": "run_prim_mod", "arm": r"Primitive::Bracket",
             "sig": "pub fn rt_arm_bracket(mut ops: Ops, env: &mut Uiua) -> UiuaResult", "epilogue_ok": True,
             "rewrites": (("R6", r"SmallVec<\[Vec<Value>; 3\]>", "Vec<Vec<Value>>", "SmallVec -> Vec (inline capacity is not modelled)"),
                          ("R6", r"SmallVec::new\(\)", "Vec::new()", "SmallVec -> Vec"))},
            {"kind": "arm", "name": "run_prim_mod Memo arm", "file": "src/run_prim.rs", "fn": "run_prim_mod", "arm": r"Primitive::Memo",
             "sig": "pub fn rt_arm_memo(mut ops: Ops, env: &mut Uiua) -> UiuaResult", "epilogue_ok": True},
            {"kind": "fn", "file": "src/algorithm/mod.rs", "fn": "try_sig"},
            {"kind": "fn", "file": "src/algorithm/mod.rs", "fn": "try_"},
        ]},
    ],
}

FAMILIES["cow"] = {
    "anchor": "src/cowslice.rs (whole file)",
    "bound": "buffer length 4; storage situations: fresh (0,4), shared (0,4), shared window (1,3), unique window (1,4), unique inner window (1,3), unique prefix window (0,2); counts <= 2 (concrete sizes, symbolic contents)",
    "header": "use crate::shim::{EcoVec, FillValue};\n",
    "rewrites": (PUBCRATE, ("R4", r"(?m)^//![^\n]*\n", "", "inner doc comment dropped")),
    "dropped": "serde Serialize/Deserialize impls, `use serde::*`, the `cowslice!` macro and its re-export, `use ecow::EcoVec`, `use crate::context::FillValue` (replaced by the shim's model), the three #[test] fns",
    "groups": [
        {"items": [{"kind": "file_minus", "name": "cowslice.rs", "file": "src/cowslice.rs", "drop": [
            ("line", r"^use serde::\*;\n"),
            ("line", r"^use ecow::EcoVec;\n"),
            ("line", r"^use crate::context::FillValue;\n"),
            ("line", r"^pub\(crate\) use cowslice;\n"),
            ("block", r"^macro_rules! cowslice \{"),
            ("block", r"^#\[test\]\nfn cow_slice_modify\(\) \{"),
            ("block", r"^#\[test\]\nfn cow_slice_deref_mut\(\) \{"),
            ("block", r"^impl<T: Clone> Serialize for CowSlice<T>\nwhere\n    T: Serialize,\n\{"),
            ("block", r"^impl<'de, T: Clone> Deserialize<'de> for CowSlice<T>\nwhere\n    T: Deserialize<'de>,\n\{"),
        ]}]},
    ],
}

FAMILIES["map"] = {
    "anchor": "src/algorithm/map.rs probe loops (insert_impl, remove_impl, MapKeys::get, set_tombstones) and row operations (MapKeys::{present_indices, reverse, rotate, drop, take})",
    "bound": "capacity 2 (quick) / 3 (thorough), scalar f64 keys; every cell any of {empty, tombstone, arbitrary f64}; one operation from an arbitrary well-formed table (single-step induction)",
    "header": "use crate::shim::*;\nuse std::cmp::Ordering;\nuse std::hash::{Hash, Hasher};\n",
    "rewrites": (PUBCRATE,),
    "dropped": "nothing inside the extracted items; MapKeys::get is a method: emitted inside `impl MapKeys` of the shim type",
    "groups": [
        {"items": [
            {"kind": "lines", "name": "WILDCARD_NAN", "file": "parser/src/lib.rs", "regex": r"^pub const WILDCARD_NAN: f64 = [^;]*;\n"},
            {"kind": "lines", "name": "EMPTY_NAN", "file": "src/algorithm/map.rs", "regex": r"^pub const EMPTY_NAN: f64 = [^;]*;\n"},
            {"kind": "lines", "name": "TOMBSTONE_NAN", "file": "src/algorithm/map.rs", "regex": r"^pub const TOMBSTONE_NAN: f64 = [^;]*;\n"},
            {"kind": "block", "name": "trait MapItem", "file": "src/algorithm/map.rs", "header": r"^pub\(crate\) trait MapItem \{"},
            {"kind": "block", "name": "impl MapItem for f64", "file": "src/algorithm/map.rs", "header": r"^impl MapItem for f64 \{"},
            {"kind": "block", "name": "trait ArrayCmp", "file": "src/array.rs", "header": r"^pub trait ArrayCmp<U = Self> \{"},
            {"kind": "block", "name": "impl ArrayCmp for f64", "file": "src/array.rs", "header": r"^impl ArrayCmp for f64 \{"},
            {"kind": "block", "name": "struct ArrayCmpSlice", "file": "src/algorithm/mod.rs", "header": r"^pub\(crate\) struct ArrayCmpSlice<'a, T>\(pub &'a \[T\]\);", "nobrace": True},
            {"kind": "block", "name": "impl PartialEq for ArrayCmpSlice", "file": "src/algorithm/mod.rs", "header": r"^impl<T: ArrayValue> PartialEq for ArrayCmpSlice<'_, T> \{"},
            {"kind": "fn", "name": "insert_impl", "file": "src/algorithm/map.rs", "impl": r"^impl MapKeys \{", "fn": "insert", "inner_fn": "insert_impl",
             "rewrites": (("R1", r"^fn insert_impl", "pub fn insert_impl", "visibility widened"),)},
            {"kind": "fn", "name": "remove_impl", "file": "src/algorithm/map.rs", "impl": r"^impl MapKeys \{", "fn": "remove", "inner_fn": "remove_impl",
             "rewrites": (("R1", r"^fn remove_impl", "pub fn remove_impl", "visibility widened"),)},
            {"kind": "fn", "name": "set_tombstones", "file": "src/algorithm/map.rs", "fn": "set_tombstones",
             "rewrites": (("R1", r"^fn set_tombstones", "pub fn set_tombstones", "visibility widened"),)},
        ]},
        {"wrap": "impl MapKeys", "items": [
            {"kind": "fn", "name": "MapKeys::get", "file": "src/algorithm/map.rs", "impl": r"^impl MapKeys \{", "fn": "get",
             "rewrites": (("R1", r"^fn get", "pub fn get", "visibility widened"),)},
        ] + [
            {"kind": "fn", "name": "MapKeys::" + f, "file": "src/algorithm/map.rs", "impl": r"^impl MapKeys \{", "fn": f,
             "rewrites": (("R1", r"^fn ", "pub fn ", "visibility widened"), ("R4", r"(?m)^\s*#\[cfg\(feature = \"ga\"\)\]\n[^\n]*\n", "", "arm behind the `ga` feature dropped"))}
            for f in ["present_indices", "reverse", "rotate", "drop", "take"]
        ]},
    ],
}

FAMILIES["shape"] = {
    "anchor": "src/algorithm/pervade.rs pervade_dim, derive_new_shape",
    "bound": "ranks <= 3 (concrete rank pairs), dimensions symbolic < 2^16",
    "header": "use crate::shim::*;\n",
    "rewrites": (PUBCRATE,),
    "dropped": "R3 error text (format! shim macro returns an empty String)",
    "groups": [
        {"items": [
            {"kind": "fn", "file": "src/algorithm/pervade.rs", "fn": "pervade_dim"},
            {"kind": "fn_first", "file": "src/algorithm/pervade.rs", "fn": "derive_new_shape"},
        ]},
    ],
}

FAMILIES["lexsplit"] = {
    "anchor": "parser/src/lex.rs Lexer::run (split-identifier block), Lexer::make_span, struct Loc",
    "bound": "2 or 3 fragments of 1-3 ASCII characters each; arbitrary start location",
    "header": "use crate::shim::*;\n",
    "rewrites": (PUBCRATE,),
    "dropped": "R10: `let tok = match prim {…};` (choice of the token kind) replaced by an opaque `tok_of(prim)`; the rest of the block verbatim",
    "groups": [
        {"prefix": "#[derive(Debug, Clone, Copy, PartialEq, Eq, PartialOrd, Ord)]\n",
         "items": [{"kind": "block", "name": "struct Loc", "file": "parser/src/lex.rs", "header": r"^pub struct Loc \{"}]},
        {"wrap": "impl<'a> Lexer<'a>", "items": [
            {"kind": "fn", "name": "Lexer::make_span", "file": "parser/src/lex.rs", "impl": r"^impl<'a> Lexer<'a> \{", "fn": "make_span",
             "rewrites": (("R1", r"fn make_span", "pub fn make_span", "visibility widened"),)},
            {"kind": "range_in_fn", "name": "split-identifier block of Lexer::run", "file": "parser/src/lex.rs", "impl": r"^impl<'a> Lexer<'a> \{", "fn": "run",
             "start": r"^[ \t]*let first_start = start;", "end": r"^[ \t]*let rest = &ident\[lowercase_end\.\.\];",
             "sig": "pub fn split_ident_spans(&mut self, start: Loc, lowercase: &str, prims: Vec<(PrimComponent, &'a str)>)",
             "rewrites": (("R10", r"(?s)let tok = match prim \{.*?\n[ \t]*\};", "let tok = tok_of(prim);", "token-kind selection dropped"),)},
        ]},
    ],
}

FAMILIES["lexargs"] = {
    "anchor": "parser/src/lex.rs Lexer::run: arm `\"?\"` (debug-count token): nested fn read_chain and the integer-subscript arm of `match subscript`; struct Loc",
    "bound": "up to 6 following characters from the 5 classes the arm distinguishes; n < 2^30; any i32 subscript",
    "header": "use crate::shim::*;\n",
    "rewrites": (PUBCRATE,),
    "dropped": "nothing inside the extracted items (the arm is emitted as a method taking the bindings `n`, `num`, `start` of the enclosing code as parameters and returning the lexer)",
    "groups": [
        {"prefix": "#[derive(Debug, Clone, Copy, PartialEq, Eq, PartialOrd, Ord)]\n",
         "items": [{"kind": "block", "name": "struct Loc", "file": "parser/src/lex.rs", "header": r"^pub struct Loc \{"}]},
        {"items": [
            {"kind": "fn", "name": "read_chain (nested in Lexer::run)", "file": "parser/src/lex.rs", "fn": "read_chain",
             "rewrites": (("R1", r"^fn read_chain", "pub fn read_chain", "visibility widened"),)},
        ]},
        {"wrap": "impl<'a> Lexer<'a>", "items": [
            {"kind": "arm", "name": "integer-subscript arm of the `?` token", "file": "parser/src/lex.rs", "impl": r"^impl<'a> Lexer<'a> \{", "fn": "run",
             "arm": r"Some\(Subscript \{\s*num: Some\(NumericSubscript::N\(Some\(SubscriptNumber::Int\(num\)\)\)\),\s*side: None,\s*\}\)",
             "sig": "pub fn arm_args_int(mut self, n: i32, num: i32, start: Loc) -> Self", "epilogue": "\n    self"},
        ]},
    ],
}

FIELDPUB = ("R1", r"(?m)^    ([a-z_]+): ", r"    pub \1: ", "field visibility")
FAMILIES["frames"] = {
    "anchor": "src/run.rs struct Runtime + Default, struct StackFrame, Uiua::{call, call_with_span, exec_with_span, exec_with_frame_span, span_index, with_fill, with_unfill, without_fill, stack_height}, error-reset block of Uiua::run_asm",
    "bound": "stack length <= 3, nesting depth <= 3, fill / call stacks of length <= 2 at entry (concrete sizes, symbolic contents and failure points)",
    "header": "use crate::shim::*;\n",
    "rewrites": (PUBCRATE, ("R4", r"(?m)^\s*#\[(?:track_caller|inline\(always\)|inline)\]\n", "", "attribute dropped")),
    "dropped": "R3 error text (format! shim macro); everything else verbatim (the `#[cfg(debug_assertions)] panic!` of exec_with_frame_span is compiled in, as in the crate's own test builds)",
    "groups": [
        {"prefix": "#[derive(Debug, Clone, Default)]\n", "items": [
            {"kind": "block", "name": "struct StackFrame", "file": "src/run.rs", "header": r"^pub\(crate\) struct StackFrame \{", "rewrites": (FIELDPUB,)}]},
        {"prefix": "#[derive(Clone)]\n", "items": [
            {"kind": "block", "name": "struct Runtime", "file": "src/run.rs", "header": r"^pub\(crate\) struct Runtime \{", "rewrites": (FIELDPUB,)}]},
        {"items": [
            {"kind": "block", "name": "impl Default for Runtime", "file": "src/run.rs", "header": r"^impl Default for Runtime \{"}]},
        {"wrap": "impl Uiua", "items": [
            {"kind": "fn", "file": "src/run.rs", "impl": UIUA, "fn": f, "rewrites": (("R1", r"^fn ", "pub fn ", "visibility widened"),)} for f in
            ["call", "call_with_span", "exec_with_span", "exec_with_frame_span", "span_index", "with_fill", "with_unfill", "without_fill", "stack_height"]
        ] + [
            {"kind": "range_in_fn", "name": "error-reset block of Uiua::run_asm", "file": "src/run.rs", "impl": UIUA, "fn": "run_asm",
             "start": r"^[ \t]*if res\.is_err\(\) \{", "brace_block": True,
             "sig": "pub fn reset_after_run(&mut self, res: &UiuaResult)"},
        ]},
    ],
}

FAMILIES["mapbuild"] = {
    "anchor": "src/algorithm/map.rs Array::map, the key-insertion / row-removal block of Array::map_args, the renumbering loop of MapKeys::join; src/algorithm/dyadic/structure.rs Array::remove_row",
    "bound": "3-4 scalar keys drawn from 3 values, scalar values",
    "header": "use crate::shim::*;\n",
    "rewrites": (PUBCRATE,),
    "dropped": "R3 error text (format! shim macro); nothing else inside the extracted items; MapKeys::insert is NOT extracted here: the shim implements its contract",
    "groups": [
        {"wrap": "impl MapKeys", "items": [
            {"kind": "range_in_fn", "name": "renumbering loop of MapKeys::join", "file": "src/algorithm/map.rs", "impl": r"^impl MapKeys \{", "fn": "join",
             "start": r"^[ \t]*(?:let mut descending\b|for &r in &to_remove \{)", "end": r"^[ \t]*Ok\(to_remove\)",
             "sig": "pub fn join_renumber(&mut self, to_remove: Vec<usize>)"},
        ]},
        {"wrap": "impl<T: ArrayValue> Array<T>", "items": [
            {"kind": "fn", "name": "Array::map", "file": "src/algorithm/map.rs", "impl": r"^impl<T: ArrayValue> Array<T> \{", "fn": "map"},
            {"kind": "range_in_fn", "name": "key-insertion and row-removal block of Array::map_args", "file": "src/algorithm/map.rs", "impl": r"^impl<T: ArrayValue> Array<T> \{", "fn": "map_args",
             "start": r"^[ \t]*let mut to_remove = Vec::new\(\);", "end": r"^[ \t]*values\.meta\.map_keys = Some\(map_keys\);",
             "sig": "pub fn map_args_tail(&mut self, keys: Value, mut map_keys: MapKeys, env: &Uiua) -> UiuaResult",
             "prologue": "        let values = self;\n", "epilogue": "        values.meta.map_keys = Some(map_keys);\n        Ok(())"},
            {"kind": "fn", "name": "Array::remove_row", "file": "src/algorithm/dyadic/structure.rs", "impl": r"^impl<T: Clone> Array<T> \{", "fn": "remove_row",
             "rewrites": (("R4", r"(?m)^\s*#\[track_caller\]\n", "", "attribute dropped"),)},
        ]},
    ],
}

ARMSIG_P = "pub fn {n}(prim: &Prim, purity: Purity) -> bool"
ARMSIG_M = "pub fn {n}(prim: &Prim, args: &[SigNode], purity: Purity, asm: &Assembly, visited: &mut Visited) -> bool"
FAMILIES["purity"] = {
    "anchor": "src/tree.rs Node::is_min_purity (Prim/ImplPrim/Mod/ImplMod arms); src/compile/pre_eval.rs PreEvalMode::matches_nodes (Mod/ImplMod arms); parser/src/primitive.rs enum Purity",
    "bound": "modifiers with 0-2 operands",
    "header": "use crate::shim::*;\n",
    "rewrites": (PUBCRATE,),
    "dropped": "nothing inside the arms; in the matches_nodes arms the recursive call `recurse(mode, …)` is renamed `recurse_m` (R6: the two nested fns share a name)",
    "groups": [
        {"prefix": "#[derive(Debug, Clone, Copy, PartialEq, Eq, PartialOrd, Ord)]\n",
         "items": [{"kind": "block", "name": "enum Purity", "file": "parser/src/primitive.rs", "header": r"^pub enum Purity \{"}]},
        {"items": [
            {"kind": "arm", "name": "is_min_purity Prim arm", "file": "src/tree.rs", "impl": r"^impl Node \{", "fn": "is_min_purity", "inner_fn": "recurse",
             "arm": r"Node::Prim\(prim, _\)", "sig": ARMSIG_P.format(n="imp_arm_prim")},
            {"kind": "arm", "name": "is_min_purity ImplPrim arm", "file": "src/tree.rs", "impl": r"^impl Node \{", "fn": "is_min_purity", "inner_fn": "recurse",
             "arm": r"Node::ImplPrim\(prim, _\)", "sig": ARMSIG_P.format(n="imp_arm_implprim")},
            {"kind": "arm", "name": "is_min_purity Mod arm", "file": "src/tree.rs", "impl": r"^impl Node \{", "fn": "is_min_purity", "inner_fn": "recurse",
             "arm": r"Node::Mod\((?:prim|_), args, _\)", "sig": ARMSIG_M.format(n="imp_arm_mod")},
            {"kind": "arm", "name": "is_min_purity ImplMod arm", "file": "src/tree.rs", "impl": r"^impl Node \{", "fn": "is_min_purity", "inner_fn": "recurse",
             "arm": r"Node::ImplMod\((?:prim|_), args, _\)", "sig": ARMSIG_M.format(n="imp_arm_implmod")},
            {"kind": "arm", "name": "matches_nodes Mod arm", "file": "src/compile/pre_eval.rs", "impl": r"^impl PreEvalMode \{", "fn": "matches_nodes",
             "arm": r"Node::Mod\(prim, args, _\)", "sig": "pub fn mn_arm_mod(prim: &Prim, args: &[SigNode], mode: PreEvalMode, asm: &Assembly, visited: &mut Visited) -> bool",
             "rewrites": (("R6", r"\brecurse\(mode,", "recurse_m(mode,", "nested fn renamed"),)},
            {"kind": "arm", "name": "matches_nodes ImplMod arm", "file": "src/compile/pre_eval.rs", "impl": r"^impl PreEvalMode \{", "fn": "matches_nodes",
             "arm": r"Node::ImplMod\(prim, args, _\)", "sig": "pub fn mn_arm_implmod(prim: &Prim, args: &[SigNode], mode: PreEvalMode, asm: &Assembly, visited: &mut Visited) -> bool",
             "rewrites": (("R6", r"\brecurse\(mode,", "recurse_m(mode,", "nested fn renamed"),)},
        ]},
    ],
}

AM = r"^impl ArrayMeta \{"
FAMILIES["arrmeth"] = {
    "anchor": "src/algorithm/monadic/mod.rs Array::reverse_depth; src/array.rs ArrayMeta mark helpers, ArrayFlags methods, Array::validate, validate_shape, row_slice; src/algorithm/mod.rs ArrayCmpSlice",
    "bound": "byte arrays of shapes [3], [4], [2,2], [2,3]; all 16 flag sets",
    "header": "use crate::shim::*;\nuse crate::eco_vec;\nuse std::ops::{Deref, DerefMut};\nuse std::fmt;\nuse std::iter::once;\n",
    "rewrites": (PUBCRATE, ("R4", r"(?m)^\s*#\[(?:track_caller|inline\(always\)|inline)\]\n", "", "attribute dropped")),
    "dropped": "serde attributes and serde trait bounds (ArrayMetaInner, ArrayRep, ArrayValueSer); ArrayFlags itself (a bitflags! type), MapKeys (opaque token), Array::map / MapKeys::normalized (assumed inverse of each other) are hand models in the shim",
    "groups": [
        {"prefix": "#[derive(Debug, Clone, Default)]\n", "items": [
            {"kind": "lines", "name": "struct ArrayMeta", "file": "src/array.rs", "regex": r"^pub struct ArrayMeta\(Option<Arc<ArrayMetaInner>>\);\n",
             "rewrites": (("R1", r"pub struct ArrayMeta\(Option", "pub struct ArrayMeta(pub Option", "field visibility"),)}]},
        {"items": [
            {"kind": "block", "name": "impl Deref for ArrayMeta", "file": "src/array.rs", "header": r"^impl Deref for ArrayMeta \{"},
            {"kind": "block", "name": "impl DerefMut for ArrayMeta", "file": "src/array.rs", "header": r"^impl DerefMut for ArrayMeta \{"},
            {"kind": "block", "name": "impl ArrayFlags", "file": "src/array.rs", "header": r"^impl ArrayFlags \{"},
            {"kind": "fn", "name": "validate_shape", "file": "src/array.rs", "fn": "validate_shape"},
            {"kind": "block", "name": "trait ArrayCmp", "file": "src/array.rs", "header": r"^pub trait ArrayCmp<U = Self> \{"},
            {"kind": "block", "name": "impl ArrayCmp for u8", "file": "src/array.rs", "header": r"^impl ArrayCmp for u8 \{"},
            {"kind": "block", "name": "struct ArrayCmpSlice", "file": "src/algorithm/mod.rs", "header": r"^#\[derive\(Debug\)\]\npub\(crate\) struct ArrayCmpSlice<'a, T>\(pub &'a \[T\]\);", "nobrace": True},
            {"kind": "block", "name": "impl Clone for ArrayCmpSlice", "file": "src/algorithm/mod.rs", "header": r"^impl<T> Clone for ArrayCmpSlice<'_, T> \{"},
            {"kind": "lines", "name": "impl Copy for ArrayCmpSlice", "file": "src/algorithm/mod.rs", "regex": r"^impl<T> Copy for ArrayCmpSlice<'_, T> \{\}\n"},
            {"kind": "block", "name": "impl PartialEq for ArrayCmpSlice", "file": "src/algorithm/mod.rs", "header": r"^impl<T: ArrayValue> PartialEq for ArrayCmpSlice<'_, T> \{"},
            {"kind": "lines", "name": "impl Eq for ArrayCmpSlice", "file": "src/algorithm/mod.rs", "regex": r"^impl<T: ArrayValue> Eq for ArrayCmpSlice<'_, T> \{\}\n"},
            {"kind": "block", "name": "impl PartialOrd for ArrayCmpSlice", "file": "src/algorithm/mod.rs", "header": r"^impl<T: ArrayValue> PartialOrd for ArrayCmpSlice<'_, T> \{"},
            {"kind": "block", "name": "impl Ord for ArrayCmpSlice", "file": "src/algorithm/mod.rs", "header": r"^impl<T: ArrayValue> Ord for ArrayCmpSlice<'_, T> \{"},
        ]},
        {"wrap": "impl ArrayMeta", "items": [
            {"kind": "fn", "file": "src/array.rs", "impl": AM, "fn": f} for f in
            ["get_inner_mut", "get_mut", "is_sorted_up", "is_sorted_down", "take_sorted_flags", "take_value_flags", "or_sorted_flags",
             "mark_sorted_up", "mark_sorted_down", "reset_flags", "take_map_keys", "take_label", "map_keys_mut"]]},
        {"prefix": "#[derive(Debug, Clone, Default, PartialEq, Eq)]\n", "items": [
            {"kind": "block", "name": "struct ArrayMetaInner", "file": "src/array.rs", "header": r"^pub struct ArrayMetaInner \{",
             "rewrites": (("R4", r"(?m)^\s*#\[serde\([^\n]*\)\]\n", "", "serde field attribute dropped"),)}]},
        {"items": [
            {"kind": "lines", "name": "static DEFAULT_META_INNER", "file": "src/array.rs", "regex": r"^static DEFAULT_META_INNER: ArrayMetaInner = ArrayMetaInner \{\n(?:[^\n]*\n)*?\};\n",
             "rewrites": (("R1", r"^static ", "pub static ", "visibility"),)}]},
        {"prefix": "#[derive(Debug, Clone)]\n", "items": [
            {"kind": "block", "name": "enum ArrayRep", "file": "src/array.rs", "header": r"^enum ArrayRep<T: ArrayValueSer> \{",
             "rewrites": (("R1", r"^enum ", "pub enum ", "visibility"),)}]},
        {"items": [
            {"kind": "block", "name": "trait ArrayValueSer", "file": "src/array.rs", "header": r"^trait ArrayValueSer: ArrayValue \+ fmt::Debug \{",
             "rewrites": (("R1", r"^trait ", "pub trait ", "visibility"),
                          ("R6", r"type Scalar: Serialize \+ DeserializeOwned \+ fmt::Debug \+", "type Scalar: fmt::Debug +", "serde bounds dropped"),
                          ("R6", r"type Collection: Serialize \+ DeserializeOwned \+ fmt::Debug;", "type Collection: fmt::Debug;", "serde bounds dropped"))},
            {"kind": "block", "name": "impl ArrayValueSer for u8", "file": "src/array.rs", "header": r"^impl ArrayValueSer for u8 \{"},
            {"kind": "block", "name": "impl From<ArrayRep<T>> for Array<T>", "file": "src/array.rs", "header": r"^impl<T: ArrayValueSer> From<ArrayRep<T>> for Array<T> \{"},
            {"kind": "block", "name": "impl From<Array<T>> for ArrayRep<T>", "file": "src/array.rs", "header": r"^impl<T: ArrayValueSer> From<Array<T>> for ArrayRep<T> \{"},
        ]},
        {"items": [
            {"kind": "range_in_fn", "name": "mark recomputation block of From<ArrayRep<T>> for Array<T>", "file": "src/array.rs",
             "impl": r"^impl<T: ArrayValueSer> From<ArrayRep<T>> for Array<T> \{", "fn": "from",
             "start": r"^[ \t]*let mut is_sorted_up = true;", "end": r"^[ \t]*arr\n[ \t]*\}",
             "sig": "pub fn recompute_marks_after_load<T: ArrayValue>(arr: &mut Array<T>)"},
        ]},
        {"items": [
            {"kind": "arm", "name": "memberof_range byte arm", "file": "src/algorithm/dyadic/mod.rs", "impl": r"^impl Value \{", "fn": "memberof_range",
             "arm": r"Value::Byte\(mut bytes\)", "sig": "pub fn memberof_range_byte_arm(mut bytes: Array<u8>, range_bound: f64) -> Array<u8>"},
        ]},
        {"wrap": "impl<T: ArrayValue> Array<T>", "items": [
            {"kind": "fn", "name": "Array::row_slice", "file": "src/array.rs", "impl": r"^impl<T> Array<T> \{", "fn": "row_slice"},
            {"kind": "fn", "name": "Array::validate", "file": "src/array.rs", "impl": r"^impl<T: ArrayValue> Array<T> \{", "fn": "validate"},
            {"kind": "fn", "name": "Array::reverse_depth", "file": "src/algorithm/monadic/mod.rs", "impl": r"^impl<T: ArrayValue> Array<T> \{", "fn": "reverse_depth"},
            {"kind": "fn", "name": "Array::transpose_depth", "file": "src/algorithm/monadic/mod.rs", "impl": r"^impl<T: ArrayValue> Array<T> \{", "fn": "transpose_depth"},
        ] + [
            {"kind": "fn", "name": "Array::" + f, "file": "src/algorithm/monadic/mod.rs", "impl": r"^impl<T: ArrayValue> Array<T> \{", "fn": f}
            for f in ["first_min_index", "first_max_index", "last_min_index", "last_max_index"]
        ] + [
            {"kind": "fn", "name": "Array::" + f, "file": "src/algorithm/monadic/sort.rs", "impl": r"^impl<T: ArrayValue> Array<T> \{", "fn": f}
            for f in ["rise_indices", "fall_indices", "is_sorted_up", "is_sorted_down"]
        ] + [
            {"kind": "fn", "name": "Array::" + f, "file": "src/algorithm/monadic/mod.rs", "impl": r"^impl<T: ArrayValue> Array<T> \{", "fn": f}
            for f in ["classify", "deduplicate", "unique", "count_unique", "occurrences", "first", "last"]
        ] + [
            {"kind": "fn", "name": "Array::" + f, "file": "src/algorithm/dyadic/structure.rs", "impl": r"^impl<T: ArrayValue> Array<T> \{", "fn": f,
             "rewrites": (("R1", r"^fn ", "pub fn ", "visibility widened"),)}
            for f in ["drop", "drop_impl"]
        ]},
    ],
}

VENV = r"^impl VirtualEnv \{"
CHKSIG = "pub fn {n}(&mut self, args: &[SigNode]) -> Result<(), SigCheckError>"
FAMILIES["checker"] = {
    "anchor": "src/check.rs Stack, VirtualEnv::{push,pop,handle_args_outputs,handle_sig}, arms Fork / Bracket / Both / Dip of VirtualEnv::node; parser/src/signature.rs",
    "bound": "1-3 operands, signatures symbolic below 256",
    "header": "use crate::shim::*;\n",
    "rewrites": (PUBCRATE,),
    "dropped": "nothing inside the extracted items",
    "groups": [
        {"prefix": "#[derive(Clone, Copy, PartialEq, Eq, Default, Debug)]\n",
         "items": [{"kind": "block", "name": "struct Signature", "file": "parser/src/signature.rs", "header": r"^pub struct Signature \{",
                    "rewrites": (("R4", r"(?m)^\s*///[^\n]*\n", "", "doc comment dropped"),)},
                   {"kind": "block", "name": "impl Signature", "file": "parser/src/signature.rs", "header": r"^impl Signature \{"}]},
        {"prefix": "#[derive(Debug, Default, Clone, Copy)]\n",
         "items": [{"kind": "block", "name": "struct Stack", "file": "src/check.rs", "header": r"^struct Stack \{",
                    "rewrites": (("R1", r"^struct Stack", "pub struct Stack", "visibility"), ("R1", r"(?m)^    (height|min_height):", r"    pub \1:", "field visibility"))},
                   {"kind": "block", "name": "impl Stack", "file": "src/check.rs", "header": r"^impl Stack \{",
                    "rewrites": (("R1", r"(?m)^    fn ", "    pub fn ", "visibility"),)}]},
        {"wrap": "impl VirtualEnv", "items": [
            {"kind": "fn", "file": "src/check.rs", "impl": VENV, "fn": "push", "rewrites": (("R1", r"^fn ", "pub fn ", "visibility"),)},
            {"kind": "fn", "file": "src/check.rs", "impl": VENV, "fn": "pop", "rewrites": (("R1", r"^fn ", "pub fn ", "visibility"),)},
            {"kind": "fn", "file": "src/check.rs", "impl": VENV, "fn": "handle_args_outputs", "rewrites": (("R1", r"^fn ", "pub fn ", "visibility"),)},
            {"kind": "fn", "file": "src/check.rs", "impl": VENV, "fn": "handle_sig", "rewrites": (("R1", r"^fn ", "pub fn ", "visibility"),)},
            {"kind": "arm", "name": "checker arm Fork", "file": "src/check.rs", "impl": VENV, "fn": "node", "arm": r"Fork", "sig": CHKSIG.format(n="arm_fork"), "epilogue_ok": True},
            {"kind": "arm", "name": "checker arm Bracket", "file": "src/check.rs", "impl": VENV, "fn": "node", "arm": r"Bracket", "sig": CHKSIG.format(n="arm_bracket"), "epilogue_ok": True},
            {"kind": "arm", "name": "checker arm Both", "file": "src/check.rs", "impl": VENV, "fn": "node", "arm": r"Both", "sig": CHKSIG.format(n="arm_both"), "epilogue_ok": True},
            {"kind": "arm", "name": "checker arm UnBracket", "file": "src/check.rs", "impl": VENV, "fn": "node", "arm": r"UnBracket", "sig": CHKSIG.format(n="arm_unbracket"), "epilogue_ok": True},
        ]},
    ],
}

# relative cost of one harness, used to share the cores out between families that run side by side
for _f, _c in (("arrmeth", 6), ("map", 6), ("mapbuild", 6), ("frames", 4)):
    FAMILIES[_f]["cost"] = _c
