//! Contracts (DESIGN.md Appendix A) for the extracted stack helpers, stated over
//! the whole pair of stacks.  Every checker takes CONCRETE sizes; the contents
//! of both stacks are symbolic.  `harness_gen.rs` instantiates them.
use crate::*;

pub fn mk(len: usize, ulen: usize) -> (Uiua, Vec<Value>, Vec<Value>) {
    let mut s = Vec::new();
    let mut i = 0;
    while i < len {
        s.push(kani::any::<Value>());
        i += 1;
    }
    let mut u = Vec::new();
    let mut i = 0;
    while i < ulen {
        u.push(kani::any::<Value>());
        i += 1;
    }
    (Uiua::new(s.clone(), u.clone()), s, u)
}
fn below(s: &[Value], k: usize) -> Vec<Value> {
    s[..s.len() - k].to_vec()
}
fn top(s: &[Value], k: usize) -> Vec<Value> {
    s[s.len() - k..].to_vec()
}
fn cat(parts: &[&[Value]]) -> Vec<Value> {
    let mut v = Vec::new();
    for p in parts {
        for x in p.iter() {
            v.push(*x);
        }
    }
    v
}
fn rev(s: &[Value]) -> Vec<Value> {
    let mut v = s.to_vec();
    v.reverse();
    v
}
fn same(a: &[Value], b: &[Value]) -> bool {
    if a.len() != b.len() {
        return false;
    }
    let mut i = 0;
    while i < a.len() {
        if a[i] != b[i] {
            return false;
        }
        i += 1;
    }
    true
}

// ------------------------------------------------------------------ helpers
pub fn ck_require_height(len: usize, n: usize) {
    let (env, s, u) = mk(len, 1);
    let r = env.require_height(n);
    if len >= n {
        assert!(r.is_ok() && r.unwrap() == len - n);
    } else {
        assert!(r.is_err());
    }
    assert!(same(&env.rt.stack, &s) && same(&env.rt.under_stack, &u));
}
pub fn ck_pop_push(len: usize) {
    let (mut env, s, u) = mk(len, 1);
    let r = env.pop(1);
    if len > 0 {
        assert!(r.is_ok() && r.unwrap() == s[len - 1]);
        assert!(same(&env.rt.stack, &below(&s, 1)));
    } else {
        assert!(r.is_err());
        assert!(env.rt.stack.is_empty());
    }
    assert!(same(&env.rt.under_stack, &u));
    let v: Value = kani::any();
    let before = env.rt.stack.clone();
    env.push(v);
    assert!(same(&env.rt.stack, &cat(&[&before, &[v]])));
    assert!(same(&env.rt.under_stack, &u));
    env.push_under(v);
    assert!(same(&env.rt.under_stack, &cat(&[&u, &[v]])));
}
pub fn ck_push_all(len: usize, k: usize) {
    let (mut env, s, u) = mk(len, 1);
    let (_, vals, _) = mk(k, 0);
    env.push_all(vals.clone());
    assert!(same(&env.rt.stack, &cat(&[&s, &vals])));
    assert!(same(&env.rt.under_stack, &u));
}
pub fn ck_pop_n(len: usize, n: usize) {
    let (mut env, s, u) = mk(len, 1);
    let r = env.pop_n(n);
    if len >= n {
        assert!(r.is_ok());
        assert!(same(&r.unwrap(), &top(&s, n)));
        assert!(same(&env.rt.stack, &below(&s, n)));
    } else {
        assert!(r.is_err());
        assert!(same(&env.rt.stack, &s));
    }
    assert!(same(&env.rt.under_stack, &u));
}
pub fn ck_copy_n(len: usize, n: usize) {
    let (env, s, u) = mk(len, 1);
    let r = env.copy_n(n);
    let c = env.clone_stack_top(n);
    if len >= n {
        assert!(r.is_ok() && c.is_ok());
        assert!(same(&r.unwrap(), &top(&s, n)));
        assert!(same(&c.unwrap(), &top(&s, n)));
    } else {
        assert!(r.is_err() && c.is_err());
    }
    assert!(same(&env.rt.stack, &s) && same(&env.rt.under_stack, &u));
}
pub fn ck_copy_n_down(len: usize, n: usize, depth: usize) {
    // precondition from every call site: depth >= n
    let (env, s, u) = mk(len, 1);
    let r = env.copy_n_down(n, depth);
    if len >= depth {
        assert!(r.is_ok());
        assert!(same(&r.unwrap(), &top(&s, depth)[..n]));
    } else {
        assert!(r.is_err());
    }
    assert!(same(&env.rt.stack, &s) && same(&env.rt.under_stack, &u));
}
pub fn ck_copy_nth(len: usize, n: usize) {
    let (env, s, u) = mk(len, 1);
    let r = env.copy_nth(n);
    if len > n {
        assert!(r.is_ok() && r.unwrap() == s[len - 1 - n]);
    } else {
        assert!(r.is_err());
    }
    assert!(same(&env.rt.stack, &s) && same(&env.rt.under_stack, &u));
}
pub fn ck_dup_values(len: usize, n: usize, depth: usize) {
    let (mut env, s, u) = mk(len, 1);
    let r = env.dup_values(n, depth);
    if len >= depth {
        assert!(r.is_ok());
        let t = top(&s, depth);
        assert!(same(&env.rt.stack, &cat(&[&below(&s, depth), &t[..n], &t])));
    } else {
        assert!(r.is_err());
        assert!(same(&env.rt.stack, &s));
    }
    assert!(same(&env.rt.under_stack, &u));
}
pub fn ck_insert_stack(len: usize, depth: usize, k: usize) {
    let (mut env, s, u) = mk(len, 1);
    let (_, vals, _) = mk(k, 0);
    let r = env.insert_stack(depth, vals.clone());
    if len >= depth {
        assert!(r.is_ok());
        assert!(same(&env.rt.stack, &cat(&[&below(&s, depth), &vals, &top(&s, depth)])));
    } else {
        assert!(r.is_err());
        assert!(same(&env.rt.stack, &s));
    }
    assert!(same(&env.rt.under_stack, &u));
}
pub fn ck_remove_n(len: usize, n: usize, depth: usize) {
    // precondition from every call site: depth >= n
    let (mut env, s, u) = mk(len, 1);
    let ok;
    {
        let r = env.remove_n(n, depth);
        ok = r.is_ok();
        if let Ok(it) = r {
            // removed values are yielded top-most first
            let got: Vec<Value> = it.collect();
            if n == 0 {
                assert!(got.is_empty());
            } else {
                let t = top(&s, depth);
                assert!(same(&got, &rev(&t[..n])));
            }
        }
    }
    if n == 0 {
        assert!(ok && same(&env.rt.stack, &s));
    } else if len >= depth {
        assert!(ok);
        let t = top(&s, depth);
        assert!(same(&env.rt.stack, &cat(&[&below(&s, depth), &t[n..]])));
    } else {
        assert!(!ok && same(&env.rt.stack, &s));
    }
    assert!(same(&env.rt.under_stack, &u));
}
pub fn ck_remove_n_dropped(len: usize, n: usize, depth: usize) {
    // the way try_ uses it: the returned iterator is dropped unread
    let (mut env, s, u) = mk(len, 1);
    let ok = env.remove_n(n, depth).is_ok();
    if n == 0 {
        assert!(ok && same(&env.rt.stack, &s));
    } else if len >= depth {
        let t = top(&s, depth);
        assert!(ok && same(&env.rt.stack, &cat(&[&below(&s, depth), &t[n..]])));
    } else {
        assert!(!ok && same(&env.rt.stack, &s));
    }
    assert!(same(&env.rt.under_stack, &u));
}
pub fn ck_rotate(len: usize, n: usize, depth: usize) {
    // precondition (panic freedom): n <= depth
    let (mut env, s, u) = mk(len, 1);
    let r = env.rotate_up(n, depth);
    if len >= depth {
        assert!(r.is_ok());
        let t = top(&s, depth);
        assert!(same(&env.rt.stack, &cat(&[&below(&s, depth), &t[depth - n..], &t[..depth - n]])));
        // rotate_down is its inverse
        let r2 = env.rotate_down(n, depth);
        assert!(r2.is_ok() && same(&env.rt.stack, &s));
    } else {
        assert!(r.is_err() && same(&env.rt.stack, &s));
    }
    assert!(same(&env.rt.under_stack, &u));
}
pub fn ck_prepare_fork(len: usize, fa: usize, ga: usize) {
    let (mut env, s, u) = mk(len, 1);
    let r = env.prepare_fork(fa, ga);
    if len >= fa {
        assert!(r.is_ok());
        assert!(same(&r.unwrap(), &top(&s, fa)));
        if fa > ga {
            assert!(same(&env.rt.stack, &cat(&[&below(&s, fa), &top(&s, ga)])));
        } else {
            assert!(same(&env.rt.stack, &s));
        }
    } else {
        assert!(r.is_err() && same(&env.rt.stack, &s));
    }
    assert!(same(&env.rt.under_stack, &u));
}
pub fn ck_truncate_stack(len: usize, k: usize) {
    let (mut env, s, u) = mk(len, 1);
    let rest = env.truncate_stack(k);
    let m = if k < len { k } else { len };
    assert!(same(&env.rt.stack, &s[..m]) && same(&rest, &s[m..]));
    assert!(same(&env.rt.under_stack, &u));
    assert!(env.stack_height() == m && env.under_stack_height() == 1);
}
pub fn ck_n_mut(len: usize, n: usize) {
    let (mut env, s, u) = mk(len, 1);
    let ok;
    {
        let r = env.n_mut(n);
        ok = r.is_ok();
        if let Ok(sl) = r {
            assert!(same(sl, &top(&s, n)));
        }
    }
    assert!(ok == (len >= n));
    assert!(same(&env.rt.stack, &s) && same(&env.rt.under_stack, &u));
}

// ------------------------------------------------------------------ monadic_* / dyadic_* helpers (C02 leaves)
fn ok1(v: Value, _e: &Uiua) -> UiuaResult<Value> {
    Ok(Value(v.0 ^ 0x5555))
}
fn err1(_v: Value, e: &Uiua) -> UiuaResult<Value> {
    Err(e.error(()))
}
fn ok1r(v: &Value, _e: &Uiua) -> UiuaResult<Value> {
    Ok(Value(v.0 ^ 0x5555))
}
fn err1r(_v: &Value, e: &Uiua) -> UiuaResult<Value> {
    Err(e.error(()))
}
fn pure1(v: &Value) -> Value {
    Value(v.0 ^ 0x5555)
}
fn ok2(a: Value, b: Value, _e: &Uiua) -> UiuaResult<Value> {
    Ok(Value(a.0 ^ (b.0 << 1)))
}
fn err2(_a: Value, _b: Value, e: &Uiua) -> UiuaResult<Value> {
    Err(e.error(()))
}
fn ok2r(a: &Value, b: &Value, _e: &Uiua) -> UiuaResult<Value> {
    Ok(Value(a.0 ^ (b.0 << 1)))
}
fn err2r(_a: &Value, _b: &Value, e: &Uiua) -> UiuaResult<Value> {
    Err(e.error(()))
}
fn ok2ro(a: &Value, b: Value, _e: &Uiua) -> UiuaResult<Value> {
    Ok(Value(a.0 ^ (b.0 << 1)))
}
fn err2ro(_a: &Value, _b: Value, e: &Uiua) -> UiuaResult<Value> {
    Err(e.error(()))
}
fn pure2(a: &Value, b: &Value) -> Value {
    Value(a.0 ^ (b.0 << 1))
}
/// which: 0 monadic_ref 1 monadic_env 2 monadic_ref_env 3 monadic_mut 4 monadic_mut_env
///        5 dyadic_rr 6 dyadic_oo_env 7 dyadic_rr_env 8 dyadic_ro_env ; fail: the function fails
pub fn ck_helper(len: usize, which: usize, fail: bool) {
    let (mut env, s, u) = mk(len, 1);
    let k = if which < 5 { 1 } else { 2 };
    let r = match (which, fail) {
        (0, _) => env.monadic_ref(pure1),
        (1, false) => env.monadic_env(ok1),
        (1, true) => env.monadic_env(err1),
        (2, false) => env.monadic_ref_env(ok1r),
        (2, true) => env.monadic_ref_env(err1r),
        (3, _) => env.monadic_mut(|v| v.0 ^= 0x5555),
        (4, false) => env.monadic_mut_env(|v, _e| {
            v.0 ^= 0x5555;
            Ok(())
        }),
        (4, true) => env.monadic_mut_env(|_v, e| Err(e.error(()))),
        (5, _) => env.dyadic_rr(pure2),
        (6, false) => env.dyadic_oo_env(ok2),
        (6, true) => env.dyadic_oo_env(err2),
        (7, false) => env.dyadic_rr_env(ok2r),
        (7, true) => env.dyadic_rr_env(err2r),
        (8, false) => env.dyadic_ro_env(ok2ro),
        (_, _) => env.dyadic_ro_env(err2ro),
    };
    let can_fail = !(which == 0 || which == 3 || which == 5);
    if len >= k && !(fail && can_fail) {
        assert!(r.is_ok());
        // consumed exactly k, produced exactly one value computed from them (first popped = top), nothing beneath touched
        assert!(env.rt.stack.len() == len - k + 1);
        assert!(same(&env.rt.stack[..len - k], &s[..len - k]));
        let want = if k == 1 { Value(s[len - 1].0 ^ 0x5555) } else { Value(s[len - 1].0 ^ (s[len - 2].0 << 1)) };
        assert!(env.rt.stack[len - k] == want);
    } else {
        assert!(r.is_err());
        // on failure nothing beneath the arguments is touched
        let keep = if len >= k { len - k } else { 0 };
        assert!(env.rt.stack.len() >= keep && same(&env.rt.stack[..keep], &s[..keep]));
    }
    assert!(same(&env.rt.under_stack, &u));
}

// ------------------------------------------------------------------ context instructions (C04)
pub fn ck_ctx_push_under(len: usize, ulen: usize, n: usize) {
    let (mut env, s, u) = mk(len, ulen);
    let r = ctx_push_under(&mut env, n);
    if len >= n {
        assert!(r.is_ok());
        assert!(same(&env.rt.stack, &below(&s, n)));
        assert!(same(&env.rt.under_stack, &cat(&[&u, &rev(&top(&s, n))])));
    } else {
        assert!(r.is_err());
        assert!(same(&env.rt.stack, &s) && same(&env.rt.under_stack, &u));
    }
}
pub fn ck_ctx_copy_to_under(len: usize, ulen: usize, n: usize) {
    let (mut env, s, u) = mk(len, ulen);
    let r = ctx_copy_to_under(&mut env, n);
    if len >= n {
        assert!(r.is_ok());
        assert!(same(&env.rt.stack, &s));
        assert!(same(&env.rt.under_stack, &cat(&[&u, &rev(&top(&s, n))])));
    } else {
        assert!(r.is_err());
        assert!(same(&env.rt.stack, &s) && same(&env.rt.under_stack, &u));
    }
}
pub fn ck_ctx_pop_under(len: usize, ulen: usize, n: usize) {
    let (mut env, s, u) = mk(len, ulen);
    let r = ctx_pop_under(&mut env, n);
    if ulen >= n {
        assert!(r.is_ok());
        assert!(same(&env.rt.stack, &cat(&[&s, &rev(&top(&u, n))])));
        assert!(same(&env.rt.under_stack, &below(&u, n)));
    } else {
        assert!(r.is_err());
        assert!(same(&env.rt.stack, &s) && same(&env.rt.under_stack, &u));
    }
}
/// PopUnder(n) after PushUnder(n) is the identity; after CopyToUnder(n) it duplicates the top n in order
pub fn ck_ctx_roundtrip(len: usize, ulen: usize, n: usize) {
    let (mut env, s, u) = mk(len, ulen);
    if len >= n {
        assert!(ctx_push_under(&mut env, n).is_ok());
        assert!(ctx_pop_under(&mut env, n).is_ok());
        assert!(same(&env.rt.stack, &s) && same(&env.rt.under_stack, &u));
        assert!(ctx_copy_to_under(&mut env, n).is_ok());
        assert!(ctx_pop_under(&mut env, n).is_ok());
        assert!(same(&env.rt.stack, &cat(&[&s, &top(&s, n)])) && same(&env.rt.under_stack, &u));
    }
}

// ------------------------------------------------------------------ rollback (C04 / C11)
pub fn set_sig(i: usize, a: usize, o: usize, ua: usize, uo: usize) {
    unsafe {
        NODE_SIGS[i] = (a, o, ua, uo);
    }
}
pub fn ck_exec_clean_stack(len: usize, ulen: usize, a: usize, o: usize, ua: usize, uo: usize, eat: usize, junk: usize, ujunk: usize) {
    set_sig(0, a, o, ua, uo);
    let (mut env, s, u) = mk(len, ulen);
    let fail: bool = kani::any();
    env.behav[0] = Behav { fail, is_case: kani::any(), eat, junk, ujunk };
    let sn = SigNode { node: Node(0), sig: Signature::new(a, o).with_under(ua, uo) };
    let r = env.exec_clean_stack(sn);
    if r.is_err() {
        // exactly the pre-state minus the arguments, on both stacks: no residue
        let keep = if len >= a { len - a } else { 0 };
        let ukeep = if ulen >= ua { ulen - ua } else { 0 };
        assert!(same(&env.rt.stack, &s[..keep]));
        assert!(same(&env.rt.under_stack, &u[..ukeep]));
    } else {
        assert!(len >= a && ulen >= ua && !fail);
        assert!(same(&env.rt.stack[..len - a], &s[..len - a]) && env.rt.stack.len() == len - a + o);
        assert!(same(&env.rt.under_stack[..ulen - ua], &u[..ulen - ua]) && env.rt.under_stack.len() == ulen - ua + uo);
    }
}

// ------------------------------------------------------------------ try (C11)
/// `try F H` with F failing in the most hostile way IH-runtime allows.
pub fn ck_try_f_fails(len: usize, ulen: usize, f: (usize, usize), h: (usize, usize), eat: usize, junk: usize, ujunk: usize) {
    set_sig(0, f.0, f.1, 0, 0);
    set_sig(1, h.0, h.1, 0, 0);
    let (mut env, s, u) = mk(len, ulen);
    env.behav[0] = Behav { fail: true, is_case: false, eat, junk, ujunk };
    let ops: Ops = vec![
        SigNode { sig: Signature::new(f.0, f.1), node: Node(0) },
        SigNode { sig: Signature::new(h.0, h.1), node: Node(1) },
    ];
    let (ts, any_takes_err) = try_sig(&ops);
    let (ta, to) = (ts.args(), ts.outputs());
    // admissible handler signatures (what the compiler accepts): handler fits try's signature
    let r = try_(ops, false, &mut env);
    if len < ta {
        assert!(r.is_err());
        assert!(same(&env.rt.stack, &s) && same(&env.rt.under_stack, &u));
        return;
    }
    assert!(r.is_ok());
    // F was entered first on the original state, the handler exactly once after it
    assert!(env.nlog == 2 && env.log_node[0] == 0 && env.log_node[1] == 1);
    assert!(same(&env.log_stack[0], &s) && same(&env.log_under[0], &u));
    let seen = env.log_stack[1].clone();
    // hidden context is what it was before F started
    assert!(same(&env.log_under[1], &u));
    let takes_err = any_takes_err && h.0 + (to - h.1) == ta + 1;
    // how many of try's deepest arguments the handler does not use
    let hnet = h.1 as isize - h.0 as isize;
    let tnet = to as isize - ta as isize;
    let k = if hnet > tnet { (hnet - tnet) as usize } else { 0 };
    let args = top(&s, ta);
    let want = if takes_err {
        cat(&[&below(&s, ta), &[ERR_TOKEN], &args[k..]])
    } else {
        cat(&[&below(&s, ta), &args[k..]])
    };
    // the handler runs on exactly the original arguments (plus the error beneath them
    // if it asks for one); everything beneath try's arguments is untouched
    assert!(same(&seen, &want));
    // ... and the whole expression ends at the height try's signature promises
    assert!(env.rt.stack.len() == len - ta + to);
    assert!(same(&env.rt.stack[..len - ta], &s[..len - ta]));
    assert!(same(&env.rt.under_stack, &u));
}
/// `try F G H`: F fails, then the first handler G fails too; H must still be entered on exactly
/// the original arguments (C11 quantifies over "all F ... all handlers").
pub fn ck_try3_both_fail(len: usize, ulen: usize, f: (usize, usize), g: (usize, usize), h: (usize, usize), eat: usize, junk: usize, ujunk: usize) {
    set_sig(0, f.0, f.1, 0, 0);
    set_sig(1, g.0, g.1, 0, 0);
    set_sig(2, h.0, h.1, 0, 0);
    let (mut env, s, u) = mk(len, ulen);
    env.behav[0] = Behav { fail: true, is_case: false, eat, junk, ujunk };
    env.behav[1] = Behav { fail: true, is_case: false, eat: junk, junk: eat, ujunk };
    let ops: Ops = vec![
        SigNode { sig: Signature::new(f.0, f.1), node: Node(0) },
        SigNode { sig: Signature::new(g.0, g.1), node: Node(1) },
        SigNode { sig: Signature::new(h.0, h.1), node: Node(2) },
    ];
    let (ts, any_takes_err) = try_sig(&ops);
    let (ta, to) = (ts.args(), ts.outputs());
    let r = try_(ops, false, &mut env);
    if len < ta {
        assert!(r.is_err());
        return;
    }
    assert!(r.is_ok());
    assert!(env.nlog == 3 && env.log_node[0] == 0 && env.log_node[1] == 1 && env.log_node[2] == 2);
    // both handlers start from the hidden context F started from
    assert!(same(&env.log_under[1], &u) && same(&env.log_under[2], &u));
    // G and H each see: everything beneath try's arguments untouched, then (the error iff they take it), then the original arguments
    let args = top(&s, ta);
    let g_takes = any_takes_err && g.0 + (to - g.1) == ta + 1;
    let want_g = if g_takes { cat(&[&below(&s, ta), &[ERR_TOKEN], &args]) } else { cat(&[&below(&s, ta), &args]) };
    assert!(same(&env.log_stack[1], &want_g));
    let h_takes = any_takes_err && h.0 + (to - h.1) == ta + 1;
    let hnet = h.1 as isize - h.0 as isize;
    let tnet = to as isize - ta as isize;
    let k = if hnet > tnet { (hnet - tnet) as usize } else { 0 };
    let want_h = if h_takes { cat(&[&below(&s, ta), &[ERR_TOKEN], &args[k..]]) } else { cat(&[&below(&s, ta), &args[k..]]) };
    assert!(same(&env.log_stack[2], &want_h));
    assert!(env.rt.stack.len() == len - ta + to);
    assert!(same(&env.rt.under_stack, &u));
}
/// `try F H` where F fails with a *case* error (which escapes one `try`): the whole
/// `try` fails.  As a failing node of signature try_sig it must obey the failure clause
/// every operand obeys: nothing beneath its own arguments is touched (otherwise an
/// enclosing `try` hands its handler a damaged stack).
pub fn ck_try_case_escapes(len: usize, ulen: usize, f: (usize, usize), h: (usize, usize), eat: usize, junk: usize, ujunk: usize) {
    set_sig(0, f.0, f.1, 0, 0);
    set_sig(1, h.0, h.1, 0, 0);
    let (mut env, s, u) = mk(len, ulen);
    env.behav[0] = Behav { fail: true, is_case: true, eat, junk, ujunk };
    let ops: Ops = vec![
        SigNode { sig: Signature::new(f.0, f.1), node: Node(0) },
        SigNode { sig: Signature::new(h.0, h.1), node: Node(1) },
    ];
    let (ts, _) = try_sig(&ops);
    let ta = ts.args();
    let r = try_(ops, false, &mut env);
    assert!(r.is_err());
    if len < ta {
        assert!(same(&env.rt.stack, &s));
        return;
    }
    // the handler is not run
    assert!(env.nlog == 1);
    // nothing beneath try's arguments is touched, and no residue is left above
    assert!(env.rt.stack.len() >= len - ta);
    assert!(same(&env.rt.stack[..len - ta], &s[..len - ta]));
    assert!(env.rt.stack.len() == len - ta);
    assert!(same(&env.rt.under_stack, &u));
    // the error that escapes is F's own (still marked as a case error for the next try out)
    assert!(r.unwrap_err().meta.is_case == false);
}
/// `try F H` with F succeeding: handlers are not run, the surplus arguments are removed as try_sig promises.
pub fn ck_try_f_succeeds(len: usize, ulen: usize, f: (usize, usize), h: (usize, usize)) {
    set_sig(0, f.0, f.1, 0, 0);
    set_sig(1, h.0, h.1, 0, 0);
    let (mut env, s, u) = mk(len, ulen);
    let ops: Ops = vec![
        SigNode { sig: Signature::new(f.0, f.1), node: Node(0) },
        SigNode { sig: Signature::new(h.0, h.1), node: Node(1) },
    ];
    let (ts, _) = try_sig(&ops);
    let (ta, to) = (ts.args(), ts.outputs());
    let r = try_(ops, false, &mut env);
    if len < ta {
        assert!(r.is_err());
        return;
    }
    assert!(r.is_ok());
    assert!(env.nlog == 1 && env.log_node[0] == 0);
    assert!(same(&env.log_stack[0], &s));
    assert!(env.rt.stack.len() == len - ta + to);
    assert!(same(&env.rt.stack[..len - ta], &s[..len - ta]));
    // F's outputs are on top
    let n = env.rt.stack.len();
    let mut i = 0;
    while i < f.1 {
        assert!(env.rt.stack[n - 1 - i].0 >= 0x4000 && env.rt.stack[n - 1 - i].0 < 0x7000);
        i += 1;
    }
    assert!(same(&env.rt.under_stack, &u));
}
/// try_sig: every handler's arguments fit, outputs are levelled
pub fn ck_try_sig(f: (usize, usize), h: (usize, usize)) {
    let ops: Ops = vec![
        SigNode { sig: Signature::new(f.0, f.1), node: Node(0) },
        SigNode { sig: Signature::new(h.0, h.1), node: Node(1) },
    ];
    let (ts, takes) = try_sig(&ops);
    let to = if f.1 > h.1 { f.1 } else { h.1 };
    assert!(ts.outputs() == to);
    // F fits: running F on try's arguments leaves `to` values
    assert!(ts.args() >= f.0 + (to - f.1));
    // the handler fits, with at most one extra argument for the error
    assert!(ts.args() + 1 >= h.0 + (to - h.1));
    // a handler is handed the error only if it has room for one more argument than try counts
    if h.0 + (to - h.1) > ts.args() {
        assert!(takes);
    }
    // minimal: one of them needs all of it
    assert!(ts.args() == f.0 + (to - f.1) || ts.args() + 1 == h.0 + (to - h.1) || ts.args() == h.0 + (to - h.1) || ts.args() == 0);
}

// ------------------------------------------------------------------ n-ary fork / bracket (C07, C02)
fn sn(i: u8, a: usize, o: usize) -> SigNode {
    set_sig(i as usize, a, o, 0, 0);
    SigNode { sig: Signature::new(a, o), node: Node(i) }
}
/// memo F xs, run twice on equal arguments: the first run executes F on exactly the top `a` values and leaves its
/// `o` results; the second run does not execute F, consumes exactly the same `a` values and leaves the same `o`
/// results; nothing beneath is touched by either.
pub fn ck_memo(len: usize, a: usize, o: usize) {
    let (mut env, s, _u) = mk(len, 0);
    let r1 = rt_arm_memo(vec![sn(0, a, o)], &mut env);
    if len < a {
        assert!(r1.is_err());
        return;
    }
    assert!(r1.is_ok());
    assert!(env.nlog == 1);
    assert!(same(&env.log_stack[0], &s));
    assert!(env.rt.stack.len() == len - a + o);
    assert!(same(&env.rt.stack[..len - a], &s[..len - a]));
    let outs = top(&env.rt.stack, o);
    // second run on the same interpreter: the same arguments again, above what the first run left
    let h = env.rt.stack.len();
    let mut i = 0;
    while i < a {
        env.rt.stack.push(s[len - a + i]);
        i += 1;
    }
    env.nlog = 0;
    let r2 = rt_arm_memo(vec![sn(0, a, o)], &mut env);
    assert!(r2.is_ok());
    assert!(env.nlog == 0);
    assert!(env.rt.stack.len() == h + o);
    assert!(same(&env.rt.stack[..len - a], &s[..len - a]));
    assert!(same(&env.rt.stack[h - o..h], &outs));
    assert!(same(&env.rt.stack[h..], &outs));
}
/// fork F G H xs: every function sees the same arguments (its own top a_i of them); functions run last-first,
/// so the first function's results end on top; nothing beneath the max a_i arguments is touched
pub fn ck_fork(len: usize, sigs: [(usize, usize); 3], n: usize) {
    let (mut env, s, u) = mk(len, 1);
    let mut ops: Ops = Vec::with_capacity(3);
    let mut i = 0;
    while i < n {
        ops.push(sn(i as u8, sigs[i].0, sigs[i].1));
        i += 1;
    }
    let mut m = 0;
    let mut outs = 0;
    let mut i = 0;
    while i < n {
        if sigs[i].0 > m {
            m = sigs[i].0;
        }
        outs += sigs[i].1;
        i += 1;
    }
    let r = rt_arm_fork(ops, &mut env);
    if len < m {
        assert!(r.is_err());
        return;
    }
    assert!(r.is_ok());
    assert!(env.nlog == n);
    let mut k = 0;
    while k < n {
        // k-th executed is operand n-1-k
        let op = n - 1 - k;
        assert!(env.log_node[k] as usize == op);
        let seen = &env.log_stack[k];
        let a = sigs[op].0;
        assert!(seen.len() >= a);
        // its arguments are exactly the original top a values, in order
        assert!(same(&seen[seen.len() - a..], &s[len - a..]));
        // nothing beneath fork's arguments was touched
        assert!(same(&seen[..len - m], &s[..len - m]));
        k += 1;
    }
    assert!(env.rt.stack.len() == len - m + outs);
    assert!(same(&env.rt.stack[..len - m], &s[..len - m]));
    assert!(same(&env.rt.under_stack, &u));
}
/// bracket F G H: consecutive argument groups (F's on top); every function sees exactly its own group
pub fn ck_bracket(len: usize, sigs: [(usize, usize); 3], n: usize) {
    let (mut env, s, u) = mk(len, 1);
    let mut ops: Ops = Vec::with_capacity(3);
    let mut i = 0;
    while i < n {
        ops.push(sn(i as u8, sigs[i].0, sigs[i].1));
        i += 1;
    }
    let mut total = 0;
    let mut outs = 0;
    let mut i = 0;
    while i < n {
        total += sigs[i].0;
        outs += sigs[i].1;
        i += 1;
    }
    let r = rt_arm_bracket(ops, &mut env);
    if len < total {
        assert!(r.is_err());
        return;
    }
    assert!(r.is_ok());
    assert!(env.nlog == n);
    let mut k = 0;
    while k < n {
        let op = n - 1 - k;
        assert!(env.log_node[k] as usize == op);
        let seen = &env.log_stack[k];
        let a = sigs[op].0;
        // offset of this operand's group from the top of the original stack
        let mut above = 0;
        let mut j = 0;
        while j < op {
            above += sigs[j].0;
            j += 1;
        }
        assert!(seen.len() >= a);
        assert!(same(&seen[seen.len() - a..], &s[len - above - a..len - above]));
        assert!(same(&seen[..len - total], &s[..len - total]));
        k += 1;
    }
    assert!(env.rt.stack.len() == len - total + outs);
    assert!(same(&env.rt.stack[..len - total], &s[..len - total]));
    assert!(same(&env.rt.under_stack, &u));
}

// ------------------------------------------------------------------ canary
//@ id=C07.e3.stack.canary props=C02,C04,C07,C11 level=bounded tier=quick expect=fail desc="deliberately false: dup_values leaves the stack unchanged"
#[kani::proof]
#[kani::unwind(8)]
fn h_canary() {
    let (mut env, s, _u) = mk(3, 0);
    let _ = env.dup_values(1, 2);
    assert!(same(&env.rt.stack, &s));
}
