//! E3 family `stack`: the stack helpers of src/run.rs, the context-stack
//! instructions, exec_clean_stack and algorithm::try_, cut verbatim out of /repo
//! (src/extracted.rs, regenerated on every run) and compiled against this shim.
#![allow(dead_code, unused_variables, unused_mut, unused_imports, clippy::all)]

/// R3: error *text* is dropped (never control flow).
macro_rules! format {
    ($($t:tt)*) => {
        ()
    };
}
macro_rules! debug_assert {
    ($($t:tt)*) => {};
}
macro_rules! debug_assert_eq {
    ($($t:tt)*) => {};
}

pub mod shim;
pub use shim::*;
mod extracted;
pub use extracted::*;
#[cfg(kani)]
mod harness;
#[cfg(kani)]
mod harness_gen;
