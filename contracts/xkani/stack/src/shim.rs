//! Shim types: the interpreter state cut down to what the extracted functions
//! touch.  `Value` is an opaque token (parametricity: the extracted code only
//! moves, clones and drops values).
use std::fmt;

use crate::extracted::Signature;

#[derive(Clone, Copy, PartialEq, Eq, Debug)]
#[cfg_attr(kani, derive(kani::Arbitrary))]
pub struct Value(pub u16);
impl Default for Value {
    fn default() -> Self {
        Value(0)
    }
}
pub const ERR_TOKEN: Value = Value(0xEEEE);

#[derive(Clone, Copy, PartialEq, Eq, Debug, Default)]
pub struct Node(pub u8);
#[derive(Clone, Copy, PartialEq, Eq, Debug)]
pub struct SigNode {
    pub node: Node,
    pub sig: Signature,
}
pub type Ops = Vec<SigNode>;

#[derive(Clone, Copy, Default, Debug)]
pub struct ErrMeta {
    pub is_case: bool,
}
#[derive(Debug)]
pub struct UiuaError {
    pub meta: ErrMeta,
}
pub struct Report;
impl fmt::Display for Report {
    fn fmt(&self, _f: &mut fmt::Formatter<'_>) -> fmt::Result {
        Ok(())
    }
}
impl fmt::Display for UiuaError {
    fn fmt(&self, _f: &mut fmt::Formatter<'_>) -> fmt::Result {
        Ok(())
    }
}
impl UiuaError {
    pub fn value(self) -> Value {
        ERR_TOKEN
    }
    pub fn report(&self) -> Report {
        Report
    }
}
pub type UiuaResult<T = ()> = Result<T, UiuaError>;

pub trait StackArg {}
impl StackArg for usize {}
impl StackArg for () {}
impl StackArg for &str {}
impl StackArg for (&str, usize) {}

pub struct Backend;
impl Backend {
    pub fn save_error_color(&self, _m: String, _c: String) {}
}

#[derive(Default)]
pub struct Runtime {
    pub stack: Vec<Value>,
    pub under_stack: Vec<Value>,
    pub backend: BackendHolder,
    pub memo: MemoHolder,
}
/// the memo table (src/run.rs: `Arc<ThreadLocal<RefCell<MemoMap>>>`, a hash map of hash maps): association
/// lists with linear search; `get_or_default` hands out the one cell of this thread
#[derive(Default)]
pub struct MemoHolder(pub std::cell::RefCell<MemoMap>);
impl MemoHolder {
    pub fn get_or_default(&self) -> &std::cell::RefCell<MemoMap> {
        &self.0
    }
}
/// at most one memoised function with at most two remembered argument lists (fixed capacity: no heap growth)
#[derive(Default)]
pub struct MemoMap {
    pub entry: Option<(Node, FMemo)>,
}
#[derive(Default)]
pub struct FMemo {
    pub items: [Option<(Vec<Value>, Vec<Value>)>; 2],
}
fn same_vals(a: &[Value], b: &[Value]) -> bool {
    if a.len() != b.len() {
        return false;
    }
    let mut i = 0;
    while i < a.len() {
        if a[i] != b[i] {
            return false;
        }
        i += 1;
    }
    true
}
impl FMemo {
    pub fn get(&self, k: &Vec<Value>) -> Option<&Vec<Value>> {
        let mut i = 0;
        while i < 2 {
            if let Some((key, val)) = &self.items[i] {
                if same_vals(key, k) {
                    return Some(val);
                }
            }
            i += 1;
        }
        None
    }
    pub fn insert(&mut self, k: Vec<Value>, v: Vec<Value>) {
        let mut i = 0;
        while i < 2 {
            let hit = match &self.items[i] {
                Some((key, _)) => same_vals(key, &k),
                None => true,
            };
            if hit {
                self.items[i] = Some((k, v));
                return;
            }
            i += 1;
        }
        panic!("memo shim capacity exceeded");
    }
}
pub struct MemoEntry<'a>(&'a mut MemoMap, Node);
impl<'a> MemoEntry<'a> {
    pub fn or_default(self) -> &'a mut FMemo {
        let fresh = match &self.0.entry {
            Some((n, _)) => {
                assert!(*n == self.1, "memo shim holds one function");
                false
            }
            None => true,
        };
        if fresh {
            self.0.entry = Some((self.1, FMemo::default()));
        }
        &mut self.0.entry.as_mut().unwrap().1
    }
}
impl MemoMap {
    pub fn get_mut(&mut self, k: &Node) -> Option<&mut FMemo> {
        match &mut self.entry {
            Some((n, f)) if *n == *k => Some(f),
            _ => None,
        }
    }
    pub fn entry(&mut self, k: Node) -> MemoEntry<'_> {
        MemoEntry(self, k)
    }
}
#[derive(Default)]
pub struct BackendHolder;
impl std::ops::Deref for BackendHolder {
    type Target = Backend;
    fn deref(&self) -> &Backend {
        &Backend
    }
}

/// How the operand model behaves when executed (scripted by the harness).
#[derive(Clone, Copy, Default)]
pub struct Behav {
    pub fail: bool,
    pub is_case: bool,
    /// on failure: how many of its arguments it had already consumed
    pub eat: usize,
    /// on failure: how many junk values it left above them
    pub junk: usize,
    /// on failure: how many junk values it left on the under stack
    pub ujunk: usize,
}

pub const MAXN: usize = 4;
pub struct Uiua {
    pub rt: Runtime,
    pub behav: [Behav; MAXN],
    pub nlog: usize,
    pub log_node: [u8; MAXN],
    pub log_stack: [Vec<Value>; MAXN],
    pub log_under: [Vec<Value>; MAXN],
    pub fresh: u16,
}
impl Uiua {
    pub fn new(stack: Vec<Value>, under: Vec<Value>) -> Self {
        Uiua {
            rt: Runtime { stack, under_stack: under, backend: BackendHolder, memo: MemoHolder::default() },
            behav: [Behav::default(); MAXN],
            nlog: 0,
            log_node: [0; MAXN],
            log_stack: [Vec::new(), Vec::new(), Vec::new(), Vec::new()],
            log_under: [Vec::new(), Vec::new(), Vec::new(), Vec::new()],
            fresh: 0,
        }
    }
    pub fn error(&self, _m: impl Sized) -> UiuaError {
        UiuaError { meta: ErrMeta::default() }
    }
}

pub trait UiuaExec {
    fn parts(self) -> (Node, Option<Signature>);
}
impl UiuaExec for Node {
    fn parts(self) -> (Node, Option<Signature>) {
        (self, None)
    }
}
impl UiuaExec for SigNode {
    fn parts(self) -> (Node, Option<Signature>) {
        (self.node, Some(self.sig))
    }
}

/// signatures of the operand nodes, set by the harness
pub static mut NODE_SIGS: [(usize, usize, usize, usize); MAXN] = [(0, 0, 0, 0); MAXN];

impl Uiua {
    /// IH-runtime in its most hostile form.  On success: consume `a`, produce `o`
    /// fresh tokens (likewise on the under stack).  On failure: consume `eat <= a`
    /// arguments, leave `junk` values above them and `ujunk` on the under stack.
    /// Every entry is logged (node id, both stacks as seen on entry).
    pub fn exec(&mut self, x: impl UiuaExec) -> UiuaResult {
        let (node, _) = x.parts();
        let (a, o, ua, uo) = unsafe { NODE_SIGS[node.0 as usize] };
        let b = self.behav[node.0 as usize];
        if self.nlog < MAXN {
            self.log_node[self.nlog] = node.0;
            self.log_stack[self.nlog] = self.rt.stack.clone();
            self.log_under[self.nlog] = self.rt.under_stack.clone();
            self.nlog += 1;
        }
        if self.rt.stack.len() < a || self.rt.under_stack.len() < ua {
            return Err(self.error(()));
        }
        if b.fail {
            let mut i = 0;
            while i < b.eat && i < a {
                self.rt.stack.pop();
                i += 1;
            }
            let mut i = 0;
            while i < b.junk {
                self.fresh += 1;
                self.rt.stack.push(Value(0x7000 + self.fresh));
                i += 1;
            }
            let mut i = 0;
            while i < b.ujunk {
                self.rt.under_stack.push(Value(0x7100));
                i += 1;
            }
            return Err(UiuaError { meta: ErrMeta { is_case: b.is_case } });
        }
        let mut i = 0;
        while i < a {
            self.rt.stack.pop();
            i += 1;
        }
        let mut i = 0;
        while i < o {
            self.fresh += 1;
            self.rt.stack.push(Value(0x4000 + self.fresh));
            i += 1;
        }
        let mut i = 0;
        while i < ua {
            self.rt.under_stack.pop();
            i += 1;
        }
        let mut i = 0;
        while i < uo {
            self.rt.under_stack.push(Value(0x4100));
            i += 1;
        }
        Ok(())
    }
}

/// src/run_prim.rs `get_ops`: the operand list must have exactly N entries
pub fn get_ops<const N: usize>(ops: Ops, env: &Uiua) -> UiuaResult<[SigNode; N]> {
    ops.try_into().map_err(|_| env.error(()))
}
