//! Heap-free model of `Shape` (src/shape.rs: a SmallVec of dimensions), rank <= 4.
#[derive(Clone, Copy, Debug, PartialEq, Eq)]
pub struct Shape {
    pub dims: [usize; 4],
    pub n: usize,
}
impl Shape {
    pub fn with_capacity(_c: usize) -> Self {
        Shape { dims: [0; 4], n: 0 }
    }
    pub fn from_slice(s: &[usize]) -> Self {
        let mut sh = Shape::with_capacity(0);
        let mut i = 0;
        while i < s.len() {
            sh.push(s[i]);
            i += 1;
        }
        sh
    }
    pub fn len(&self) -> usize {
        self.n
    }
    pub fn push(&mut self, d: usize) {
        self.dims[self.n] = d;
        self.n += 1;
    }
    pub fn as_slice(&self) -> &[usize] {
        &self.dims[..self.n]
    }
    pub fn get(&self, i: usize) -> Option<&usize> {
        self.as_slice().get(i)
    }
    /// src/shape.rs:81 `&self.dims[self.len().min(1)..]`
    pub fn row_slice(&self) -> &[usize] {
        &self.as_slice()[self.len().min(1)..]
    }
}
impl AsRef<[usize]> for Shape {
    fn as_ref(&self) -> &[usize] {
        self.as_slice()
    }
}
/// `[usize]::ends_with(&Shape)` in the real code goes through `Deref<Target=[usize]>`
impl std::ops::Deref for Shape {
    type Target = [usize];
    fn deref(&self) -> &[usize] {
        self.as_slice()
    }
}
