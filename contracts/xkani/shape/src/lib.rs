//! E3 family `shape`: `pervade_dim` and `derive_new_shape` of src/algorithm/pervade.rs,
//! verbatim, over a heap-free `Shape`.
#![allow(dead_code, unused_variables, unused_mut, unused_imports, clippy::all)]
/// R3: error text dropped
macro_rules! format {
    ($($t:tt)*) => {
        String::new()
    };
}
pub mod shim;
pub use shim::*;
mod extracted;
pub use extracted::*;
#[cfg(kani)]
mod harness;
