//! Leading-axis shape agreement of pervasive dyadic functions (C08), against a
//! specification written from the documentation of fill and pervasive functions.
use crate::*;

fn any_shape(rank: usize) -> Shape {
    let d: [u16; 4] = kani::any();
    let mut s = Shape::with_capacity(rank);
    let mut i = 0;
    while i < rank {
        s.push(d[i] as usize);
        i += 1;
    }
    s
}
fn ends_with(a: &[usize], b: &[usize]) -> bool {
    if b.len() > a.len() {
        return false;
    }
    let off = a.len() - b.len();
    let mut i = 0;
    while i < b.len() {
        if a[off + i] != b[i] {
            return false;
        }
        i += 1;
    }
    true
}
/// The documented rule: shapes agree axis by axis from the leading axis; equal lengths agree;
/// a length-1 axis stretches (when that side has no fill); with a fill on the shorter side
/// (whose shape must be a suffix of that argument's row shape) the shorter is filled to the
/// longer; otherwise it is an error.  Missing trailing axes are taken from the longer shape.
fn spec(ash: &Shape, bsh: &Shape, af: Option<&Shape>, bf: Option<&Shape>) -> Option<Shape> {
    let rank = if ash.len() > bsh.len() { ash.len() } else { bsh.len() };
    let mut out = Shape::with_capacity(rank);
    let mut i = 0;
    while i < rank {
        let c = if i >= bsh.len() {
            ash.dims[i]
        } else if i >= ash.len() {
            bsh.dims[i]
        } else {
            let (a, b) = (ash.dims[i], bsh.dims[i]);
            if a == b {
                a
            } else if a == 1 && af.is_none() {
                b
            } else if b == 1 && bf.is_none() {
                a
            } else {
                let (fill, sh) = if a < b { (af, ash) } else { (bf, bsh) };
                match fill {
                    Some(f) if ends_with(sh.row_slice(), f.as_slice()) => {
                        if a > b { a } else { b }
                    }
                    _ => return None,
                }
            }
        };
        out.push(c);
        i += 1;
    }
    Some(out)
}
fn ck(ra: usize, rb: usize, fill_a: Option<usize>, fill_b: Option<usize>) {
    let ash = any_shape(ra);
    let bsh = any_shape(rb);
    let fa = fill_a.map(any_shape);
    let fb = fill_b.map(any_shape);
    let r = derive_new_shape(&ash, &bsh, fa.as_ref().ok_or("e"), fb.as_ref().ok_or("e"));
    match spec(&ash, &bsh, fa.as_ref(), fb.as_ref()) {
        Some(want) => {
            assert!(r.is_ok());
            let got = r.unwrap();
            assert!(got.len() == want.len());
            let mut i = 0;
            while i < want.len() {
                assert!(got.dims[i] == want.dims[i]);
                i += 1;
            }
        }
        None => assert!(r.is_err()),
    }
}

//@ id=C08.e3.pervade_dim props=C08,C09 level=complete tier=quick desc="pervade_dim: the length-1 side stretches to the other; otherwise the maximum"
#[kani::proof]
fn h_pervade_dim() {
    let a: usize = kani::any();
    let b: usize = kani::any();
    let r = pervade_dim(a, b);
    if a == 1 {
        assert!(r == b);
    } else if b == 1 {
        assert!(r == a);
    } else {
        assert!(r >= a && r >= b && (r == a || r == b));
    }
    assert!(pervade_dim(a, b) == pervade_dim(b, a));
}
//@ id=C08.e3.derive_new_shape.2x2 props=C08,C09 level=bounded tier=quick bound="ranks 2/2, no fill" desc="derive_new_shape: Ok(shape) exactly when the shapes agree axis by axis, with the documented result; error otherwise"
#[kani::proof]
#[kani::unwind(6)]
fn h_dns_2_2() {
    ck(2, 2, None, None);
}
//@ id=C08.e3.derive_new_shape.3x1 props=C08,C09 level=bounded tier=quick bound="ranks 3/1, no fill" desc="derive_new_shape with a shorter right shape"
#[kani::proof]
#[kani::unwind(6)]
fn h_dns_3_1() {
    ck(3, 1, None, None);
}
//@ id=C08.e3.derive_new_shape.0x2 props=C08,C09 level=bounded tier=quick bound="ranks 0/2, no fill" desc="derive_new_shape with a scalar"
#[kani::proof]
#[kani::unwind(6)]
fn h_dns_0_2() {
    ck(0, 2, None, None);
}
//@ id=C08.e3.derive_new_shape.2x2_fill_a0 props=C08,C09 level=bounded tier=quick bound="ranks 2/2, scalar fill for the left argument" desc="derive_new_shape with a fill: the shorter filled side grows; a length-1 axis no longer stretches on that side"
#[kani::proof]
#[kani::unwind(20)]
fn h_dns_2_2_fa0() {
    ck(2, 2, Some(0), None);
}
//@ id=C08.e3.derive_new_shape.2x2_fill_b1 props=C08,C09 level=bounded tier=quick bound="ranks 2/2, rank-1 fill for the right argument" desc="derive_new_shape with a non-scalar fill whose shape must be a suffix of the row shape"
#[kani::proof]
#[kani::unwind(20)]
fn h_dns_2_2_fb1() {
    ck(2, 2, None, Some(1));
}
//@ id=C08.e3.derive_new_shape.3x2_fill_both props=C08,C09 level=bounded tier=thorough bound="ranks 3/2, scalar fills on both sides" desc="derive_new_shape with fills on both sides"
#[kani::proof]
#[kani::unwind(20)]
fn h_dns_3_2_fboth() {
    ck(3, 2, Some(0), Some(0));
}
//@ id=C08.e3.shape.canary props=C08 level=bounded tier=quick expect=fail desc="deliberately false: unequal axes always agree"
#[kani::proof]
#[kani::unwind(6)]
fn h_canary() {
    let ash = any_shape(2);
    let bsh = any_shape(2);
    assert!(derive_new_shape(&ash, &bsh, Err("e"), Err("e")).is_ok());
}
