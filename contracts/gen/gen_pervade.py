#!/usr/bin/env python3
"""Generates contracts/inplace/uiua/src__algorithm__pervade.rs: one Kani harness
per (kernel module, storage variant) of src/algorithm/pervade.rs.

The table below is the contract; the generated file is committed so that a
reader sees the exact harness text.  Re-run after editing the table."""
import os

HERE = os.path.dirname(os.path.abspath(__file__))
OUT = os.path.join(HERE, "..", "inplace", "uiua", "src__algorithm__pervade.rs")

H = []  # harness texts


def harness(oid, props, fn, body, level="complete", tier="quick", expect="pass", flags="nofloat",
            budget=300, desc="", attrs="", bound=""):
    ann = f'//@ id={oid} props={props} level={level} tier={tier} expect={expect} flags={flags} budget={budget}'
    if desc:
        ann += f' desc="{desc}"'
    if bound:
        ann += f' bound="{bound}"'
    H.append(f"    {ann}\n    #[kani::proof]\n{attrs}    fn {fn}() {{\n{body}    }}\n")


def ind(s, n=8):
    return "".join(" " * n + l + "\n" for l in s.strip("\n").split("\n"))


# ------------------------------------------------------------------ C06: byte/bool ≡ float
UN_BYTE_F = ["not", "scalar_neg", "square_abs", "neg_abs"]          # byte(u8)->f64
UN_BYTE_F_SLOW = ["recip"]  # sqrt::byte: CBMC models sqrt with a fresh nondeterministic value per call; f(x)==f(x) is not provable in reasonable time (>25 min) -> undecided (libm)
UN_BYTE_B = ["scalar_abs", "sign", "floor", "ceil", "round", "complex_im"]  # byte(u8)->u8
UN_BOOL = ["not", "sqrt"]                                           # bool(u8)->u8

for m in UN_BYTE_F + UN_BYTE_F_SLOW:
    harness(f"C06.e1.{m}.byte_eq_num", "C06,C09", f"vk_c06_{m}_byte",
            ind(f"let a: u8 = kani::any();\nassert!(same({m}::byte(a), {m}::num(a as f64)));"),
            desc=f"{m}::byte(a) is bit-identical to {m}::num(a as f64) for all u8")
for m in UN_BYTE_B:
    harness(f"C06.e1.{m}.byte_eq_num", "C06,C09", f"vk_c06_{m}_byte",
            ind(f"let a: u8 = kani::any();\nassert!(same({m}::byte(a) as f64, {m}::num(a as f64)));"),
            desc=f"{m}::byte(a) as f64 equals {m}::num(a as f64) for all u8")
for m in UN_BOOL:
    harness(f"C06.e1.{m}.bool_eq_num", "C06,C05,C09", f"vk_c06_{m}_bool",
            ind(f"let a: u8 = kani::any();\nkani::assume(a <= 1); // meaning of the BOOLEAN mark\n"
                f"assert!(same({m}::bool(a) as f64, {m}::num(a as f64)));\nassert!({m}::bool(a) <= 1); // result keeps the mark truthful"),
            desc=f"{m}::bool on a boolean equals {m}::num and stays boolean")
harness("C06.e1.bool.reachable", "C06", "vk_c06_bool_reach",
        ind("let a: u8 = kani::any();\nkani::assume(a <= 1);\nassert!(false);"), expect="fail",
        desc="vacuity guard: the boolean precondition is satisfiable")

BIN_F = {  # module -> result kind
    "add": "f", "sub": "f", "set_sign": "f",
}
BIN_SLOW = {"mul": "f", "div": "f"}


def cmp_res(kind, l, r):
    if kind == "f":
        return f"same({l}, {r})"
    if kind == "c":
        return f"samec({l}, {r})"
    if kind == "u":  # byte side returns u8, float side f64
        return f"same({l} as f64, {r})"
    if kind == "uu":  # both u8
        return f"{l} == {r}"
    raise ValueError(kind)


def bin_family(m, kind_bb, kind_mixed, tier_bb="quick", tier_mixed="quick", budget=300, do_bb=True, do_mixed=True):
    if do_bb:
        harness(f"C06.e1.{m}.byte_byte_eq_num_num", "C06,C09", f"vk_c06_{m}_byte_byte",
                ind(f"let a: u8 = kani::any();\nlet b: u8 = kani::any();\n"
                    f"assert!({cmp_res(kind_bb, f'{m}::byte_byte(a, b)', f'{m}::num_num(a as f64, b as f64)')});"),
                tier=tier_bb, budget=budget, desc=f"{m}::byte_byte equals {m}::num_num on the converted arguments, all u8 x u8")
    if not do_mixed:
        return
    harness(f"C06.e1.{m}.byte_num_eq_num_num", "C06,C09", f"vk_c06_{m}_byte_num",
            ind(f"let a: u8 = kani::any();\nlet y = anyf();\n"
                f"assert!({cmp_res(kind_mixed, f'{m}::byte_num(a, y)', f'{m}::num_num(a as f64, y)')});"),
            tier=tier_mixed, budget=budget, desc=f"{m}::byte_num equals {m}::num_num, all u8 x f64")
    harness(f"C06.e1.{m}.num_byte_eq_num_num", "C06,C09", f"vk_c06_{m}_num_byte",
            ind(f"let x = anyf();\nlet b: u8 = kani::any();\n"
                f"assert!({cmp_res(kind_mixed, f'{m}::num_byte(x, b)', f'{m}::num_num(x, b as f64)')});"),
            tier=tier_mixed, budget=budget, desc=f"{m}::num_byte equals {m}::num_num, all f64 x u8")


for m in ("add", "sub"):
    bin_family(m, "f", "f")
bin_family("set_sign", "f", "f", tier_bb="quick", tier_mixed="thorough", budget=1500)
bin_family("mul", "f", "f", tier_bb="quick", tier_mixed="thorough", budget=1500)
# div: the mixed byte/float variants time out under CBMC even at 3000 s (symbolic float division): left undecided
bin_family("div", "f", "f", tier_bb="thorough", budget=3000, do_mixed=False)
bin_family("max", "u", "f")
bin_family("min", "u", "f")
bin_family("complex", "c", "c")
for m in ("is_eq", "is_ne", "other_is_lt", "other_is_le", "other_is_gt", "other_is_ge"):
    harness(f"C06.e1.{m}.same_type_byte_eq_num", "C06,C09", f"vk_c06_{m}_same_type",
            ind(f"let a: u8 = kani::any();\nlet b: u8 = kani::any();\n"
                f"assert!(same({m}::same_type::<u8>(a, b) as f64, {m}::same_type::<f64>(a as f64, b as f64)));\n"
                f"assert!({m}::same_type::<u8>(a, b) == {m}::num_num(a as f64, b as f64));\n"
                f"assert!({m}::same_type::<u8>(a, b) <= 1);"),
            desc=f"{m} on two bytes equals {m} on the same two floats (and is boolean)")
    bin_family(m, "uu", "uu", do_bb=False)

BOOLS = {"add": False, "mul": True, "or": True, "max": True, "min": True}
for m, stays in BOOLS.items():
    extra = f"assert!({m}::bool_bool(a, b) <= 1); // dispatch keeps the BOOLEAN mark for this op\n" if stays else ""
    harness(f"C06.e1.{m}.bool_bool_eq_num_num", "C06,C05,C09", f"vk_c06_{m}_bool_bool",
            ind(f"let a: u8 = kani::any();\nlet b: u8 = kani::any();\nkani::assume(a <= 1 && b <= 1);\n"
                f"assert!(same({m}::bool_bool(a, b) as f64, {m}::num_num(a as f64, b as f64)));\n" + extra),
            attrs="    #[kani::unwind(12)]\n" if m == "or" else "",
            desc=f"{m}::bool_bool on booleans equals {m}::num_num" + (" and stays boolean" if stays else ""))

# or: byte gcd loop vs. float/u128 gcd loop
harness("C06.e1.or.byte_byte_eq_num_num", "C06,C09", "vk_c06_or_byte_byte",
        ind("let a: u8 = kani::any();\nlet b: u8 = kani::any();\n"
            "assert!(same(or::byte_byte(a, b) as f64, or::num_num(a as f64, b as f64)));"),
        attrs="    #[kani::unwind(12)]\n", budget=1500, tier="thorough",
        desc="binary-gcd on bytes equals the u128 gcd path of or::num_num (loops unwound 12 with unwinding assertions: complete for u8)")
# or::byte_num / num_byte against or::num_num (float gcd loop): timed out at 1500 s even for integers < 65536: left undecided

# modulo byte variants (rem_euclid -> fmod): CBMC did not finish in 25 min -> left undecided (libm), see DESIGN.md

# character arithmetic: byte amount ≡ float amount
harness("C06.e1.add.byte_char_eq_num_char", "C06,C09", "vk_c06_add_byte_char",
        ind("let a: u8 = kani::any();\nlet c: char = kani::any();\n"
            "assert!(add::byte_char(a, c) == add::num_char(a as f64, c));\n"
            "assert!(add::char_byte(c, a) == add::char_num(c, a as f64));"),
        desc="adding a byte to a character equals adding the same float")
harness("C06.e1.sub.byte_char_eq_num_char", "C06,C09", "vk_c06_sub_byte_char",
        ind("let a: u8 = kani::any();\nlet c: char = kani::any();\n"
            "assert!(sub::byte_char(a, c) == sub::num_char(a as f64, c));"),
        desc="subtracting a byte from a character equals subtracting the same float")
# mul/div of a character by a byte: the infeasible `a < 0` branch drags the Unicode case tables into the formula (>25 min) -> undecided

# ------------------------------------------------------------------ C08: kernel == spec written from the documentation
harness("C08.e1.not.spec", "C08,C09", "vk_c08_not",
        ind("let a = anyf();\nassert!(same(not::num(a), 1.0 - a)); // doc: equivalent to subtract dip 1\n"
            "let b: u8 = kani::any();\nif b <= 1 { assert!(not::bool(b) == 1 - b); }"),
        desc="not x = 1 - x")
harness("C08.e1.sign.spec", "C08,C09", "vk_c08_sign",
        ind("let a = anyf();\nlet r = sign::num(a);\n"
            "if a > 0.0 { assert!(r == 1.0); }\nif a < 0.0 { assert!(r == -1.0); }\nif a == 0.0 { assert!(r == 0.0); } // both zeros\n"
            "if a.is_nan() { assert!(r.is_nan()); }\n"
            "let b: u8 = kani::any();\nassert!(sign::byte(b) == if b > 0 { 1 } else { 0 });"),
        desc="sign is 1, -1 or 0 (0 for both zeros)")
harness("C08.e1.neg_abs.spec", "C08,C09", "vk_c08_neg_abs",
        ind("let a = anyf();\n"
            "assert!(same(scalar_neg::num(a), -a));\n"
            "let r = scalar_abs::num(a);\nif !a.is_nan() { assert!(r >= 0.0 && (r == a || r == -a)); assert!(!r.is_sign_negative()); } else { assert!(r.is_nan()); }\n"
            "// fused kernels equal the compositions they replace\n"
            "assert!(same(neg_abs::num(a), scalar_neg::num(scalar_abs::num(a))));\n"
            "assert!(same(square_abs::num(a), mul::num_num(scalar_abs::num(a), scalar_abs::num(a))));\n"
            "let b: u8 = kani::any();\nassert!(scalar_abs::byte(b) == b);"),
        desc="negate, absolute value, and the fused neg-abs / square-abs kernels")
harness("C08.e1.floor_ceil_round.spec", "C08,C09", "vk_c08_floor_ceil_round",
        ind("let a = anyf();\nkani::assume(a.is_finite() && a.abs() < 4503599627370496.0);\n"
            "let f = floor::num(a);\nlet c = ceil::num(a);\nlet r = round::num(a);\n"
            "assert!(f <= a && a < f + 1.0 && f == (f as i64) as f64);\n"
            "assert!(c >= a && a > c - 1.0 && c == (c as i64) as f64);\n"
            "assert!((r - a).abs() <= 0.5 && r == (r as i64) as f64);\n"
            "if a == f + 0.5 { assert!(r.abs() >= a.abs()); } // exact ties round away from zero\n"
            "let b: u8 = kani::any();\nassert!(floor::byte(b) == b && ceil::byte(b) == b && round::byte(b) == b);"),
        budget=900, desc="floor/ceil/round on |x| < 2^52 (beyond that every float is an integer)")
harness("C08.e1.floor_ceil_round.reach", "C08", "vk_c08_fcr_reach",
        ind("let a = anyf();\nkani::assume(a.is_finite() && a.abs() < 4503599627370496.0);\nassert!(false);"),
        expect="fail", desc="vacuity guard")
harness("C08.e1.floor_ceil_round.big", "C08,C09", "vk_c08_fcr_big",
        ind("let a = anyf();\nkani::assume(a.is_finite() && a.abs() >= 4503599627370496.0);\n"
            "assert!(floor::num(a) == a && ceil::num(a) == a && round::num(a) == a);"),
        desc="floor/ceil/round are the identity at or above 2^52")
harness("C08.e1.arith.spec", "C08,C09", "vk_c08_arith",
        ind("let a = anyf();\nlet b = anyf();\n"
            "assert!(same(add::num_num(a, b), b + a));\n"
            "assert!(same(sub::num_num(a, b), b - a)); // the first is subtracted from the second\n"),
        desc="add / subtract (argument order per documentation)")
harness("C08.e1.mul.spec", "C08,C09", "vk_c08_mul",
        ind("let a = anyf();\nlet b = anyf();\nassert!(same(mul::num_num(a, b), b * a));"),
        budget=3000, tier="thorough", desc="multiply")
# div::num_num against `b / a` over all pairs of floats: CBMC ran out of memory (two symbolic 53-bit dividers) -> not registered
harness("C08.e1.cmp.spec", "C08,C15,C09", "vk_c08_cmp",
        ind("let a = anyf();\nlet b = anyf();\n"
            "let (lt, le, gt, ge, eq, ne) = (other_is_lt::num_num(a, b), other_is_le::num_num(a, b), other_is_gt::num_num(a, b), other_is_ge::num_num(a, b), is_eq::num_num(a, b), is_ne::num_num(a, b));\n"
            "assert!(lt <= 1 && le <= 1 && gt <= 1 && ge <= 1 && eq <= 1 && ne <= 1);\n"
            "// exactly one of <, =, > ; the others derived\n"
            "assert!(lt + eq + gt == 1);\nassert!(le == (lt | eq) && ge == (gt | eq) && ne == 1 - eq);\n"
            "// 'the second value is checked to be less than the first'\n"
            "if !a.is_nan() && !b.is_nan() { assert!((lt == 1) == (b < a)); assert!((gt == 1) == (b > a)); assert!((eq == 1) == (b == a)); }\n"
            "// agrees with the value ordering used by sort/match\n"
            "assert!((eq == 1) == b.array_eq(&a));\nassert!((lt == 1) == (b.array_cmp(&a) == Ordering::Less));"),
        desc="the six comparisons form a trichotomy consistent with the array ordering")
harness("C08.e1.minmax.spec", "C08,C09", "vk_c08_minmax",
        ind("let a = anyf();\nlet b = anyf();\nkani::assume(!a.is_nan() && !b.is_nan());\n"
            "let mn = min::num_num(a, b);\nlet mx = max::num_num(a, b);\n"
            "assert!(mn <= a && mn <= b && (mn == a || mn == b));\nassert!(mx >= a && mx >= b && (mx == a || mx == b));\n"
            "let x: u8 = kani::any();\nlet y: u8 = kani::any();\n"
            "assert!(min::byte_byte(x, y) <= x && min::byte_byte(x, y) <= y && (min::byte_byte(x, y) == x || min::byte_byte(x, y) == y));\n"
            "assert!(max::byte_byte(x, y) >= x && max::byte_byte(x, y) >= y && (max::byte_byte(x, y) == x || max::byte_byte(x, y) == y));"),
        desc="minimum / maximum")
# modulo::num_num (f64::rem_euclid -> fmod): CBMC's fmod model is imprecise (it reports 1 mod 2 != 1; the counterexample does not
# replay on the real code), so no obligation is registered for it: undecided, see DESIGN.md

harness("C08.e1.char_arith.spec", "C08,C09", "vk_c08_char_arith",
        ind("let c: char = kani::any();\nlet d: char = kani::any();\nlet n: i32 = kani::any();\n"
            "kani::assume(n > -2000000 && n < 2000000);\n"
            "let t = c as i64 + n as i64;\n"
            "let want = if t < 0 { '\\0' } else if t > char::MAX as i64 { char::MAX } else { char::from_u32(t as u32).unwrap_or('\\0') };\n"
            "assert!(add::num_char(n as f64, c) == want);\nassert!(add::char_num(c, n as f64) == want);\n"
            "let t2 = c as i64 - n as i64;\n"
            "let want2 = if t2 < 0 { '\\0' } else if t2 > char::MAX as i64 { char::MAX } else { char::from_u32(t2 as u32).unwrap_or('\\0') };\n"
            "assert!(sub::num_char(n as f64, c) == want2);\n"
            "assert!(sub::char_char(c, d) == (d as i64 - c as i64) as f64);"),
        desc="character arithmetic: code point offset, clamped to the valid range, NUL on surrogates")

# ------------------------------------------------------------------ C03: scalar inverse pairs (exact on integers)
INT = "let xi: i64 = kani::any();\nkani::assume(xi > -(1i64 << 51) && xi < (1i64 << 51));\nlet x = xi as f64;\n"
INTA = "let ai: i64 = kani::any();\nkani::assume(ai > -(1i64 << 51) && ai < (1i64 << 51));\nlet a = ai as f64;\n"
harness("C03.e1.neg.involutive", "C03,C09", "vk_c03_neg",
        ind("let x = anyf();\nassert!(scalar_neg::num(scalar_neg::num(x)).to_bits() == x.to_bits());\n"
            "let c = Complex::new(anyf(), anyf());\nlet cc = scalar_neg::com(scalar_neg::com(c));\nassert!(cc.re.to_bits() == c.re.to_bits() && cc.im.to_bits() == c.im.to_bits());"),
        desc="un negate = negate: negating twice is the identity on every float / complex")
harness("C03.e1.not.involutive_ints", "C03,C09", "vk_c03_not",
        ind(INT + "assert!(not::num(not::num(x)) == x);\nlet b: u8 = kani::any();\nif b <= 1 { assert!(not::bool(not::bool(b)) == b); }"),
        desc="un not = not on exactly representable integers")
harness("C03.e1.add_sub.inverse_ints", "C03,C09", "vk_c03_add_sub",
        ind(INT + INTA +
            "// anti add a = subtract a ; anti subtract a = add a ; (flip subtract) is its own inverse\n"
            "assert!(sub::num_num(a, add::num_num(a, x)) == x);\n"
            "assert!(add::num_num(a, sub::num_num(a, x)) == x);\n"
            "assert!(sub::num_num(sub::num_num(x, a), a) == x);"),
        desc="add a / subtract a are mutual inverses on integers |.| < 2^51")
harness("C03.e1.add_sub.reach", "C03", "vk_c03_add_sub_reach", ind(INT + INTA + "assert!(false);"), expect="fail",
        desc="vacuity guard")
# divide-after-multiply on integers < 2^20: CBMC timed out after 50 min (multiplier + divider) -> not registered
harness("C03.e1.conj.involutive", "C03,C09", "vk_c03_conj",
        ind("let c = Complex::new(anyf(), anyf());\n"
            "let a = conj::com(conj::com(c));\nassert!(a.re.to_bits() == c.re.to_bits() && a.im.to_bits() == c.im.to_bits());\n"
            "let b = negconj::com(negconj::com(c));\nassert!(b.re.to_bits() == c.re.to_bits() && b.im.to_bits() == c.im.to_bits());\n"
            "let d = undual::com(dual::com(c));\nassert!(d.re.to_bits() == c.re.to_bits() && d.im.to_bits() == c.im.to_bits());\n"
            "let e = dual::com(undual::com(c));\nassert!(e.re.to_bits() == c.re.to_bits() && e.im.to_bits() == c.im.to_bits());"),
        desc="conjugate, negative conjugate are involutions; dual/undual mutual inverses")
harness("C03.e1.complex.uncomplex", "C03,C09", "vk_c03_complex_parts",
        ind("let re = anyf();\nlet im = anyf();\nlet c = complex::num_num(im, re);\n"
            "assert!(complex_re::com(c).to_bits() == re.to_bits());\nassert!(complex_im::com(c).to_bits() == im.to_bits());"),
        desc="un complex (re/im parts) returns what complex put in")

# canaries (must fail): the engine really checks kernels
harness("C06.e1.canary", "C06,C08,C03", "vk_c06_canary",
        ind("let a: u8 = kani::any();\nlet b: u8 = kani::any();\nassert!(same(add::byte_byte(a, b), sub::num_num(a as f64, b as f64)));"),
        expect="fail", desc="deliberately false obligation")

PRE = '''// GENERATED by contracts/gen/gen_pervade.py — do not edit by hand.
// Contracts on the scalar kernels of src/algorithm/pervade.rs: storage-variant
// agreement (C06), documented semantics (C08), scalar inverse pairs (C03).
#[cfg(kani)]
mod verif_kani_pervade {
    use super::*;
    use crate::array::ArrayCmp;
    use std::cmp::Ordering;

    fn anyf() -> f64 {
        f64::from_bits(kani::any())
    }
    /// bit-identical, or both NaN
    fn same(x: f64, y: f64) -> bool {
        x.to_bits() == y.to_bits() || (x.is_nan() && y.is_nan())
    }
    fn samec(x: Complex, y: Complex) -> bool {
        same(x.re, y.re) && same(x.im, y.im)
    }

'''
with open(OUT, "w") as f:
    f.write(PRE + "\n".join(H) + "}\n")
print("wrote", OUT, len(H), "harnesses")
