// Verus shim for engine E2.  ONLY type declarations, spec functions, lemmas
// (proved) and `external_body` functions with ASSUMED contracts live here.
// Everything marked `external_body` is an assumption and is listed in the
// evidence (`assumed_contracts`).  The code under proof is pasted after this
// file by lib/e2.py, cut out of /repo on every run.

// ======================= types (declared by hand: R1) =======================
#[derive(Clone, Copy)]
pub struct Signature {
    pub args: u16,
    pub outputs: u16,
    pub under_args: u16,
    pub under_outputs: u16,
}

/// An interpreter value.  Abstract: the extracted code only moves, clones and drops values.
pub struct Value {
    pub id: int,
}
impl Clone for Value {
    #[verifier::external_body]
    fn clone(&self) -> (r: Self)
        ensures r == *self,
    {
        unimplemented!()
    }
}
/// A node of the program tree.  Abstract, with ghost semantics `node_sig` / `node_out`.
pub struct Node {
    pub id: int,
}
impl Clone for Node {
    #[verifier::external_body]
    fn clone(&self) -> (r: Self)
        ensures r == *self,
    {
        unimplemented!()
    }
}
pub struct SigNode {
    pub node: Node,
    pub sig: Signature,
}
pub struct FunctionId {
    pub id: int,
}
pub struct Span {
    pub id: int,
}
impl Clone for Span {
    #[verifier::external_body]
    fn clone(&self) -> (r: Self)
        ensures r == *self,
    {
        unimplemented!()
    }
}
pub struct TraceFrame {
    pub id: Option<FunctionId>,
    pub span: Span,
}
pub struct ErrMeta {
    pub trace: Vec<TraceFrame>,
    pub is_case: bool,
}
pub struct UiuaError {
    pub meta: ErrMeta,
}
impl std::fmt::Debug for UiuaError {
    #[verifier::external_body]
    fn fmt(&self, f: &mut std::fmt::Formatter<'_>) -> std::fmt::Result {
        unimplemented!()
    }
}
impl UiuaError {
    #[verifier::external_body]
    pub fn track_caller(&mut self, new_span: Span) {
        unimplemented!()
    }
}
pub struct Assembly2 {
    pub spans: Vec<Span>,
}
pub type UiuaResult<T = ()> = Result<T, UiuaError>;
#[derive(Debug)]
pub struct SigCheckError {
    pub k: u8,
}
pub struct StackFrame {
    pub sig: Signature,
    pub id: Option<FunctionId>,
    pub call_span: usize,
    pub track_caller: bool,
}
pub struct FillFrame {
    pub id: int,
}
pub struct Runtime {
    pub stack: Vec<Value>,
    pub under_stack: Vec<Value>,
    pub call_stack: Vec<StackFrame>,
    pub fill_stack: Vec<FillFrame>,
    pub fill_boundary_stack: Vec<(usize, usize)>,
    pub unfill_stack: Vec<FillFrame>,
    pub unfill_boundary_stack: Vec<(usize, usize)>,
}
pub struct Uiua {
    pub rt: Runtime,
    pub asm: Assembly2,
}
pub type Ops = Vec<SigNode>;

// the signature checker's state (declared by hand: R1; methods are extracted)
pub struct Stack {
    pub height: i32,
    pub min_height: usize,
}
pub struct VirtualEnv {
    pub stack: Stack,
    pub under: Stack,
    pub node_depth: usize,
}

// ======================= spec functions =======================
pub open spec fn max(a: int, b: int) -> int {
    if a >= b { a } else { b }
}
pub open spec fn monus(a: int, b: int) -> int {
    if a >= b { a - b } else { 0 }
}
/// Height transformer denoted by |a.o : defined iff h >= a.
pub open spec fn eff(a: int, o: int, h: int) -> Option<int> {
    if h >= a { Some(h - a + o) } else { None }
}
pub open spec fn eff_then(a1: int, o1: int, a2: int, o2: int, h: int) -> Option<int> {
    match eff(a1, o1, h) {
        Some(h1) => eff(a2, o2, h1),
        None => None,
    }
}

/// Abstract view of check::Stack : (height, least height needed so far)
pub struct SV {
    pub h: int,
    pub m: int,
}
pub open spec fn sv(s: Stack) -> SV {
    SV { h: s.height as int, m: s.min_height as int }
}
pub open spec fn stack_wf(s: Stack) -> bool {
    &&& s.min_height as int >= -(s.height as int)
    &&& -0x2000_0000 < s.height < 0x2000_0000
    &&& s.min_height < 0x2000_0000
}
/// numeric slack needed so that a bounded number of steps cannot overflow i32
/// (precondition of every checker arm: the heights met while checking one function
/// stay far below 2^28 — operand counts are u16 and nesting depth is capped)
pub open spec fn stack_small(s: Stack) -> bool {
    &&& stack_wf(s)
    &&& -0x1000_0000 < s.height < 0x1000_0000
    &&& s.min_height < 0x1000_0000
}
/// what one more Stack operation needs (implied by stack_small plus < 3000 steps of size <= 0x20000)
pub open spec fn stack_room2(s: Stack) -> bool {
    &&& s.min_height as int >= -(s.height as int)
    &&& -0x1F00_0000 < s.height < 0x1F00_0000
    &&& s.min_height < 0x1F00_0000
}
pub open spec fn stack_room(s: Stack) -> bool {
    &&& s.min_height as int >= -(s.height as int)
    &&& -0x1E00_0000 < s.height < 0x1E00_0000
    &&& s.min_height < 0x1E00_0000
}
/// Effect of a function with signature |a.o on the checker's view.
pub open spec fn app(v: SV, a: int, o: int) -> SV {
    SV { h: v.h - a + o, m: max(v.m, a - v.h) }
}
/// The signature the checker reports for a view.
pub open spec fn sv_sig(v: SV) -> (int, int) {
    (v.m, max(v.h + v.m, 0))
}

// app is a monoid action compatible with Signature::compose (proved, not assumed)
pub proof fn lemma_app_compose(v: SV, a1: int, o1: int, a2: int, o2: int)
    requires a1 >= 0, o1 >= 0, a2 >= 0, o2 >= 0, v.m >= -v.h,
    ensures
        app(app(v, a1, o1), a2, o2) == app(v, a1 + monus(a2, o1), o2 + monus(o1, a2)),
        app(v, a1, o1).m >= -app(v, a1, o1).h,
{
}
/// From the empty view, applying |a.o yields exactly the signature |a.o
pub proof fn lemma_app_from_empty(a: int, o: int)
    requires a >= 0, o >= 0,
    ensures sv_sig(app(SV { h: 0, m: 0 }, a, o)) == (a, o),
{
}

// ---- run-time stack as a sequence ----
pub open spec fn top(s: Seq<Value>, k: int) -> Seq<Value> {
    s.subrange(s.len() - k, s.len() as int)
}
pub open spec fn below(s: Seq<Value>, k: int) -> Seq<Value> {
    s.subrange(0, s.len() - k)
}
pub open spec fn rev(s: Seq<Value>) -> Seq<Value> {
    s.reverse()
}

// ghost semantics of operands (IH)
pub uninterp spec fn node_sig(n: Node) -> Signature;
/// values an operand leaves for given arguments (deterministic operand: C07's hypothesis)
pub uninterp spec fn node_out(n: Node, args: Seq<Value>) -> Seq<Value>;
pub open spec fn wf_sn(sn: SigNode) -> bool {
    node_sig(sn.node) == sn.sig
}

pub trait UiuaExec: Sized {
    spec fn the_node(self) -> Node;
}
impl UiuaExec for Node {
    open spec fn the_node(self) -> Node {
        self
    }
}
impl UiuaExec for SigNode {
    open spec fn the_node(self) -> Node {
        self.node
    }
}
pub trait StackArg: Sized {}
impl StackArg for usize {}
impl StackArg for () {}
impl StackArg for &str {}

/// every scoped stack of the runtime other than stack / under_stack
pub open spec fn scoped_same(a: Runtime, b: Runtime) -> bool {
    &&& a.call_stack@.len() == b.call_stack@.len()
    // frames beneath are the same frames (only their track_caller flag may be set by a callee)
    &&& forall|i: int| 0 <= i < a.call_stack@.len() ==> a.call_stack@[i].call_span == (#[trigger] b.call_stack@[i]).call_span && a.call_stack@[i].sig == b.call_stack@[i].sig
    &&& a.fill_stack@.len() == b.fill_stack@.len()
    &&& a.fill_boundary_stack@.len() == b.fill_boundary_stack@.len()
    &&& a.unfill_stack@.len() == b.unfill_stack@.len()
    &&& a.unfill_boundary_stack@.len() == b.unfill_boundary_stack@.len()
}

// ---- inversion (C03) ----
pub struct Assembly {
    pub id: int,
}
#[derive(Debug)]
pub enum InversionError {
    Generic,
    Other,
}
pub type InversionResult<T = ()> = Result<T, InversionError>;
impl Node {
    /// ASSUMED total-or-error: what the inverter builds is out of reach; only the
    /// signature assigned to the result is under proof.
    #[verifier::external_body]
    pub fn un_inverse(&self, asm: &Assembly) -> (r: InversionResult<Node>) {
        unimplemented!()
    }
    #[verifier::external_body]
    pub fn anti_inverse(&self, asm: &Assembly) -> (r: InversionResult<Node>) {
        unimplemented!()
    }
}

/// R5: a closure `impl FnOnce(&mut Uiua) -> T` run inside a scoped-state helper.
/// ASSUMED (IH): the body restores every scoped stack to its entry length, whatever it returns.
pub trait ScopedBody<T>: Sized {
    fn call(self, env: &mut Uiua) -> (r: T)
        ensures
            scoped_same(old(env).rt, final(env).rt),
    ;
}

pub struct Msg {}
#[verifier::external_body]
pub fn verif_msg() -> Msg {
    unimplemented!()
}

impl Uiua {
    // ---------------- IH-runtime (ASSUMED: the induction hypothesis of C02/C07/C11) ----------------
    /// Executing an operand whose signature is |a.o (under |ua.uo):
    ///  Ok  => it had >= a values, consumed exactly the top a, produced node_out(..) of length o,
    ///         touched nothing beneath; likewise on the under stack; scoped stacks restored.
    ///  Err => nothing beneath the arguments was touched on either stack; scoped stacks restored.
    #[verifier::external_body]
    pub fn exec<T: UiuaExec>(&mut self, node: T) -> (r: UiuaResult)
        ensures
            scoped_same(old(self).rt, final(self).rt),
            // Rust guarantees Vec lengths fit isize; the span table only grows
            final(self).rt.stack@.len() <= isize::MAX as nat,
            final(self).asm.spans@.len() >= old(self).asm.spans@.len(),
            r.is_ok() ==> ({
                let sg = node_sig(node.the_node());
                let s = old(self).rt.stack@;
                let u = old(self).rt.under_stack@;
                &&& s.len() >= sg.args
                &&& final(self).rt.stack@ == below(s, sg.args as int) + node_out(node.the_node(), top(s, sg.args as int))
                &&& node_out(node.the_node(), top(s, sg.args as int)).len() == sg.outputs
                &&& u.len() >= sg.under_args
                &&& final(self).rt.under_stack@.len() == u.len() - sg.under_args + sg.under_outputs
                &&& below(final(self).rt.under_stack@, sg.under_outputs as int) == below(u, sg.under_args as int)
            }),
            r.is_err() ==> ({
                let sg = node_sig(node.the_node());
                let s = old(self).rt.stack@;
                let u = old(self).rt.under_stack@;
                &&& final(self).rt.stack@.len() >= monus(s.len() as int, sg.args as int)
                &&& final(self).rt.stack@.subrange(0, monus(s.len() as int, sg.args as int)) == s.subrange(0, monus(s.len() as int, sg.args as int))
                &&& final(self).rt.under_stack@.len() >= monus(u.len() as int, sg.under_args as int)
                &&& final(self).rt.under_stack@.subrange(0, monus(u.len() as int, sg.under_args as int)) == u.subrange(0, monus(u.len() as int, sg.under_args as int))
            }),
    {
        unimplemented!()
    }

    // ---------------- helper contracts (ASSUMED here; each is an E3 obligation on the real body) ----------------
    #[verifier::external_body]
    pub fn error(&self, m: Msg) -> UiuaError {
        unimplemented!()
    }
    #[verifier::external_body]
    pub fn error_with_span(&self, span: Span, m: Msg) -> UiuaError {
        unimplemented!()
    }
    #[verifier::external_body]
    pub fn pop<A: StackArg>(&mut self, arg: A) -> (r: UiuaResult<Value>)
        ensures
            final(self).rt.under_stack@ == old(self).rt.under_stack@,
            scoped_same(old(self).rt, final(self).rt),
            old(self).rt.stack@.len() > 0 ==> r.is_ok() && final(self).rt.stack@ == old(self).rt.stack@.drop_last() && r.unwrap() == old(self).rt.stack@.last(),
            old(self).rt.stack@.len() == 0 ==> r.is_err() && final(self).rt.stack@ == old(self).rt.stack@,
    {
        unimplemented!()
    }
    #[verifier::external_body]
    pub fn push(&mut self, val: Value)
        ensures
            final(self).rt.stack@ == old(self).rt.stack@.push(val),
            final(self).rt.under_stack@ == old(self).rt.under_stack@,
            scoped_same(old(self).rt, final(self).rt),
    {
        unimplemented!()
    }
    #[verifier::external_body]
    pub fn push_all(&mut self, vals: Vec<Value>)
        ensures
            final(self).rt.stack@ == old(self).rt.stack@ + vals@,
            final(self).rt.under_stack@ == old(self).rt.under_stack@,
            scoped_same(old(self).rt, final(self).rt),
    {
        unimplemented!()
    }
    #[verifier::external_body]
    pub fn pop_n(&mut self, n: usize) -> (r: UiuaResult<Vec<Value>>)
        ensures
            final(self).rt.under_stack@ == old(self).rt.under_stack@,
            scoped_same(old(self).rt, final(self).rt),
            r.is_ok() <==> old(self).rt.stack@.len() >= n,
            r.is_ok() ==> r.unwrap()@ == top(old(self).rt.stack@, n as int) && final(self).rt.stack@ == below(old(self).rt.stack@, n as int),
            r.is_err() ==> final(self).rt.stack@ == old(self).rt.stack@,
    {
        unimplemented!()
    }
    #[verifier::external_body]
    pub fn copy_n(&self, n: usize) -> (r: UiuaResult<Vec<Value>>)
        ensures
            r.is_ok() <==> self.rt.stack@.len() >= n,
            r.is_ok() ==> r.unwrap()@ == top(self.rt.stack@, n as int),
    {
        unimplemented!()
    }
    #[verifier::external_body]
    pub fn copy_n_down(&self, n: usize, depth: usize) -> (r: UiuaResult<Vec<Value>>)
        requires depth >= n,
        ensures
            r.is_ok() <==> self.rt.stack@.len() >= depth,
            r.is_ok() ==> r.unwrap()@ == top(self.rt.stack@, depth as int).subrange(0, n as int),
    {
        unimplemented!()
    }
    #[verifier::external_body]
    pub fn copy_nth(&self, n: usize) -> (r: UiuaResult<Value>)
        requires n < usize::MAX,
        ensures
            r.is_ok() <==> self.rt.stack@.len() > n,
            r.is_ok() ==> r.unwrap() == self.rt.stack@[self.rt.stack@.len() - 1 - n],
    {
        unimplemented!()
    }
    #[verifier::external_body]
    pub fn dup_values(&mut self, n: usize, depth: usize) -> (r: UiuaResult)
        requires depth >= n,
        ensures
            final(self).rt.under_stack@ == old(self).rt.under_stack@,
            scoped_same(old(self).rt, final(self).rt),
            r.is_ok() <==> old(self).rt.stack@.len() >= depth,
            r.is_ok() ==> final(self).rt.stack@ == below(old(self).rt.stack@, depth as int) + top(old(self).rt.stack@, depth as int).subrange(0, n as int) + top(old(self).rt.stack@, depth as int),
            r.is_err() ==> final(self).rt.stack@ == old(self).rt.stack@,
    {
        unimplemented!()
    }
    #[verifier::external_body]
    pub fn insert_stack(&mut self, depth: usize, values: Vec<Value>) -> (r: UiuaResult)
        ensures
            final(self).rt.under_stack@ == old(self).rt.under_stack@,
            scoped_same(old(self).rt, final(self).rt),
            r.is_ok() <==> old(self).rt.stack@.len() >= depth,
            r.is_ok() ==> final(self).rt.stack@ == below(old(self).rt.stack@, depth as int) + values@ + top(old(self).rt.stack@, depth as int),
            r.is_err() ==> final(self).rt.stack@ == old(self).rt.stack@,
    {
        unimplemented!()
    }
    #[verifier::external_body]
    pub fn rotate_up(&mut self, n: usize, depth: usize) -> (r: UiuaResult)
        requires n <= depth,
        ensures
            final(self).rt.under_stack@ == old(self).rt.under_stack@,
            scoped_same(old(self).rt, final(self).rt),
            r.is_ok() <==> old(self).rt.stack@.len() >= depth,
            r.is_ok() ==> final(self).rt.stack@ == below(old(self).rt.stack@, depth as int) + top(old(self).rt.stack@, n as int) + top(old(self).rt.stack@, depth as int).subrange(0, depth - n),
            r.is_err() ==> final(self).rt.stack@ == old(self).rt.stack@,
    {
        unimplemented!()
    }
    #[verifier::external_body]
    pub fn prepare_fork(&mut self, f_args: usize, g_args: usize) -> (r: UiuaResult<Vec<Value>>)
        ensures
            final(self).rt.under_stack@ == old(self).rt.under_stack@,
            scoped_same(old(self).rt, final(self).rt),
            r.is_ok() <==> old(self).rt.stack@.len() >= f_args,
            r.is_ok() ==> r.unwrap()@ == top(old(self).rt.stack@, f_args as int),
            r.is_ok() && f_args > g_args ==> final(self).rt.stack@ == below(old(self).rt.stack@, f_args as int) + top(old(self).rt.stack@, g_args as int),
            r.is_ok() && f_args <= g_args ==> final(self).rt.stack@ == old(self).rt.stack@,
            r.is_err() ==> final(self).rt.stack@ == old(self).rt.stack@,
    {
        unimplemented!()
    }
    #[verifier::external_body]
    pub fn stack_height(&self) -> (r: usize)
        ensures r == self.rt.stack@.len(),
    {
        unimplemented!()
    }
    #[verifier::external_body]
    pub fn truncate_stack(&mut self, size: usize)
        ensures
            final(self).rt.under_stack@ == old(self).rt.under_stack@,
            scoped_same(old(self).rt, final(self).rt),
            final(self).rt.stack@ == old(self).rt.stack@.subrange(0, if size <= old(self).rt.stack@.len() { size as int } else { old(self).rt.stack@.len() as int }),
    {
        unimplemented!()
    }
}

// ---- R8: what a primitive computes is opaque; only its stack traffic is under contract ----
pub struct OpaqueFn {}
#[verifier::external_body]
pub fn opaque_fn() -> OpaqueFn {
    unimplemented!()
}
#[verifier::external_body]
pub fn opaque_value() -> Value {
    unimplemented!()
}
#[verifier::external_body]
pub fn opaque_result() -> UiuaResult<Value> {
    unimplemented!()
}
#[verifier::external_body]
pub fn opaque_unit() -> UiuaResult<()> {
    unimplemented!()
}
#[verifier::external_body]
pub fn opaque_unit_infallible() {
    unimplemented!()
}
/// stack effect of a leaf: consumed exactly `a`, produced exactly `o`, nothing beneath touched;
/// on failure nothing beneath the arguments touched
pub open spec fn leaf_effect(s0: Seq<Value>, s1: Seq<Value>, ok: bool, a: int, o: int) -> bool {
    if ok {
        &&& s0.len() >= a
        &&& s1.len() == s0.len() - a + o
        &&& s1.subrange(0, s0.len() - a) =~= s0.subrange(0, s0.len() - a)
    } else {
        &&& s1.len() >= monus(s0.len() as int, a)
        &&& s1.subrange(0, monus(s0.len() as int, a)) =~= s0.subrange(0, monus(s0.len() as int, a))
    }
}
impl Uiua {
    #[verifier::external_body]
    pub fn require_height(&self, n: usize) -> (r: UiuaResult<usize>)
        ensures
            r.is_ok() <==> self.rt.stack@.len() >= n,
            r.is_ok() ==> r.unwrap() == self.rt.stack@.len() - n,
    {
        unimplemented!()
    }
}
impl Uiua {
    /// ASSUMED (E3 obligation C02.e3.helper.monadic_ref on the real body): pops 1, calls the function, pushes one result
    #[verifier::external_body]
    pub fn monadic_ref(&mut self, f: OpaqueFn) -> (r: UiuaResult)
        ensures
            final(self).rt.under_stack@ == old(self).rt.under_stack@,
            scoped_same(old(self).rt, final(self).rt),
            leaf_effect(old(self).rt.stack@, final(self).rt.stack@, r.is_ok(), 1, 1),
    {
        unimplemented!()
    }
    /// ASSUMED (E3 obligation C02.e3.helper.monadic_env on the real body): pops 1, calls the function, pushes one result
    #[verifier::external_body]
    pub fn monadic_env(&mut self, f: OpaqueFn) -> (r: UiuaResult)
        ensures
            final(self).rt.under_stack@ == old(self).rt.under_stack@,
            scoped_same(old(self).rt, final(self).rt),
            leaf_effect(old(self).rt.stack@, final(self).rt.stack@, r.is_ok(), 1, 1),
    {
        unimplemented!()
    }
    /// ASSUMED (E3 obligation C02.e3.helper.monadic_ref_env on the real body): pops 1, calls the function, pushes one result
    #[verifier::external_body]
    pub fn monadic_ref_env(&mut self, f: OpaqueFn) -> (r: UiuaResult)
        ensures
            final(self).rt.under_stack@ == old(self).rt.under_stack@,
            scoped_same(old(self).rt, final(self).rt),
            leaf_effect(old(self).rt.stack@, final(self).rt.stack@, r.is_ok(), 1, 1),
    {
        unimplemented!()
    }
    /// ASSUMED (E3 obligation C02.e3.helper.monadic_mut on the real body): pops 1, calls the function, pushes one result
    #[verifier::external_body]
    pub fn monadic_mut(&mut self, f: OpaqueFn) -> (r: UiuaResult)
        ensures
            final(self).rt.under_stack@ == old(self).rt.under_stack@,
            scoped_same(old(self).rt, final(self).rt),
            leaf_effect(old(self).rt.stack@, final(self).rt.stack@, r.is_ok(), 1, 1),
    {
        unimplemented!()
    }
    /// ASSUMED (E3 obligation C02.e3.helper.monadic_mut_env on the real body): pops 1, calls the function, pushes one result
    #[verifier::external_body]
    pub fn monadic_mut_env(&mut self, f: OpaqueFn) -> (r: UiuaResult)
        ensures
            final(self).rt.under_stack@ == old(self).rt.under_stack@,
            scoped_same(old(self).rt, final(self).rt),
            leaf_effect(old(self).rt.stack@, final(self).rt.stack@, r.is_ok(), 1, 1),
    {
        unimplemented!()
    }
    /// ASSUMED (E3 obligation C02.e3.helper.dyadic_rr on the real body): pops 2, calls the function, pushes one result
    #[verifier::external_body]
    pub fn dyadic_rr(&mut self, f: OpaqueFn) -> (r: UiuaResult)
        ensures
            final(self).rt.under_stack@ == old(self).rt.under_stack@,
            scoped_same(old(self).rt, final(self).rt),
            leaf_effect(old(self).rt.stack@, final(self).rt.stack@, r.is_ok(), 2, 1),
    {
        unimplemented!()
    }
    /// ASSUMED (E3 obligation C02.e3.helper.dyadic_oo on the real body): pops 2, calls the function, pushes one result
    #[verifier::external_body]
    pub fn dyadic_oo(&mut self, f: OpaqueFn) -> (r: UiuaResult)
        ensures
            final(self).rt.under_stack@ == old(self).rt.under_stack@,
            scoped_same(old(self).rt, final(self).rt),
            leaf_effect(old(self).rt.stack@, final(self).rt.stack@, r.is_ok(), 2, 1),
    {
        unimplemented!()
    }
    /// ASSUMED (E3 obligation C02.e3.helper.dyadic_ro on the real body): pops 2, calls the function, pushes one result
    #[verifier::external_body]
    pub fn dyadic_ro(&mut self, f: OpaqueFn) -> (r: UiuaResult)
        ensures
            final(self).rt.under_stack@ == old(self).rt.under_stack@,
            scoped_same(old(self).rt, final(self).rt),
            leaf_effect(old(self).rt.stack@, final(self).rt.stack@, r.is_ok(), 2, 1),
    {
        unimplemented!()
    }
    /// ASSUMED (E3 obligation C02.e3.helper.dyadic_rr_env on the real body): pops 2, calls the function, pushes one result
    #[verifier::external_body]
    pub fn dyadic_rr_env(&mut self, f: OpaqueFn) -> (r: UiuaResult)
        ensures
            final(self).rt.under_stack@ == old(self).rt.under_stack@,
            scoped_same(old(self).rt, final(self).rt),
            leaf_effect(old(self).rt.stack@, final(self).rt.stack@, r.is_ok(), 2, 1),
    {
        unimplemented!()
    }
    /// ASSUMED (E3 obligation C02.e3.helper.dyadic_oo_env on the real body): pops 2, calls the function, pushes one result
    #[verifier::external_body]
    pub fn dyadic_oo_env(&mut self, f: OpaqueFn) -> (r: UiuaResult)
        ensures
            final(self).rt.under_stack@ == old(self).rt.under_stack@,
            scoped_same(old(self).rt, final(self).rt),
            leaf_effect(old(self).rt.stack@, final(self).rt.stack@, r.is_ok(), 2, 1),
    {
        unimplemented!()
    }
    /// ASSUMED (E3 obligation C02.e3.helper.dyadic_ro_env on the real body): pops 2, calls the function, pushes one result
    #[verifier::external_body]
    pub fn dyadic_ro_env(&mut self, f: OpaqueFn) -> (r: UiuaResult)
        ensures
            final(self).rt.under_stack@ == old(self).rt.under_stack@,
            scoped_same(old(self).rt, final(self).rt),
            leaf_effect(old(self).rt.stack@, final(self).rt.stack@, r.is_ok(), 2, 1),
    {
        unimplemented!()
    }
}

// arity check of the operand list (R2: replaces the slice pattern `let [f] = get_ops(ops, env)?;`)
#[verifier::external_body]
pub fn get_ops_1(ops: Ops, env: &Uiua) -> (r: UiuaResult<SigNode>)
    ensures r.is_ok() <==> ops@.len() == 1, r.is_ok() ==> r.unwrap() == ops@[0],
{
    unimplemented!()
}
#[verifier::external_body]
pub fn get_ops_2(ops: Ops, env: &Uiua) -> (r: UiuaResult<(SigNode, SigNode)>)
    ensures r.is_ok() <==> ops@.len() == 2, r.is_ok() ==> r.unwrap() == (ops@[0], ops@[1]),
{
    unimplemented!()
}
#[verifier::external_body]
pub fn get_args_nodes_1(args: &[SigNode]) -> (r: Result<&SigNode, SigCheckError>)
    ensures r.is_ok() <==> args@.len() == 1, r.is_ok() ==> *r.unwrap() == args@[0],
{
    unimplemented!()
}
#[verifier::external_body]
pub fn get_args_nodes_2(args: &[SigNode]) -> (r: Result<(&SigNode, &SigNode), SigCheckError>)
    ensures r.is_ok() <==> args@.len() == 2, r.is_ok() ==> *r.unwrap().0 == args@[0] && *r.unwrap().1 == args@[1],
{
    unimplemented!()
}
#[verifier::external_body]
pub fn get_args_1(args: &[SigNode]) -> (r: Result<Signature, SigCheckError>)
    ensures r.is_ok() <==> args@.len() == 1, r.is_ok() ==> r.unwrap() == args@[0].sig,
{
    unimplemented!()
}
#[verifier::external_body]
pub fn get_args_2(args: &[SigNode]) -> (r: Result<(Signature, Signature), SigCheckError>)
    ensures r.is_ok() <==> args@.len() == 2, r.is_ok() ==> r.unwrap() == (args@[0].sig, args@[1].sig),
{
    unimplemented!()
}

pub uninterp spec fn try_sig_spec(args: Seq<SigNode>) -> Signature;
/// `algorithm::try_sig` is shared by the checker's Try arm and by the run-time `try_` (E3 obligations
/// C11.e3.try_sig.fits.* are on its real body); here it is an uninterpreted function of the operand list.
#[verifier::external_body]
pub fn try_sig(args: &[SigNode]) -> (r: (Signature, bool))
    ensures r.0 == try_sig_spec(args@),
{
    unimplemented!()
}

impl VirtualEnv {
    /// IH-checker for a child node (ASSUMED): as `sig_node`, for `self.node(inner)`
    #[verifier::external_body]
    pub fn node(&mut self, n: &Node) -> (r: Result<(), SigCheckError>)
        ensures
            r.is_ok() ==> sv(final(self).stack) == app(sv(old(self).stack), node_sig(*n).args as int, node_sig(*n).outputs as int),
            r.is_ok() ==> sv(final(self).under) == app(sv(old(self).under), node_sig(*n).under_args as int, node_sig(*n).under_outputs as int),
            final(self).node_depth == old(self).node_depth,
    {
        unimplemented!()
    }
    /// IH-checker (ASSUMED): checking an operand acts on both virtual stacks exactly as its
    /// recorded signature does (SigNode invariant: `sn.sig` is the signature the checker
    /// computed for `sn.node`; compositionality of `app` is lemma_app_compose, proved).
    #[verifier::external_body]
    pub fn sig_node(&mut self, sn: &SigNode) -> (r: Result<(), SigCheckError>)
        ensures
            r.is_ok() ==> sv(final(self).stack) == app(sv(old(self).stack), sn.sig.args as int, sn.sig.outputs as int),
            r.is_ok() ==> sv(final(self).under) == app(sv(old(self).under), sn.sig.under_args as int, sn.sig.under_outputs as int),
            final(self).node_depth == old(self).node_depth,
    {
        unimplemented!()
    }
}
