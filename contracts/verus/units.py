"""E2 units: what is extracted from /repo and the contract spliced onto it.

kind = fn      : a whole fn item (impl = regex of the enclosing impl header)
kind = arm     : one arm of a match inside fn `fn`; wrapped as `sig { <arm body>; tail }`
kind = lemma   : Verus-only text (spec-level lemma or vacuity guard), no repo code
"""

SIGIMPL = r"^impl Signature \{"
STACKIMPL = r"^impl Stack \{"
VENVIMPL = r"^impl VirtualEnv \{"
UIUAIMPL = r"^impl Uiua \{"

UNITS = []


def U(**kw):
    UNITS.append(kw)


# =====================================================================
# parser/src/signature.rs  (Verus side; the Kani side is contracts/inplace/uiua_parser)
# =====================================================================
SIGF = "parser/src/signature.rs"
for name, ens in [
    ("args", ["r == self.args"]),
    ("outputs", ["r == self.outputs"]),
    ("under_args", ["r == self.under_args"]),
    ("under_outputs", ["r == self.under_outputs"]),
]:
    U(id=f"C02.e2.sig.{name}", props=["C02"], kind="fn", file=SIGF, impl=SIGIMPL, impl_name="Signature", fn=name,
      target="impl Signature", ret="r", ensures=ens, desc=f"Signature::{name} is the field")
U(id="C02.e2.sig.new", props=["C02", "C09"], kind="fn", file=SIGF, impl=SIGIMPL, impl_name="Signature", fn="new",
  target="impl Signature", ret="r",
  ensures=["args <= 0xFFFF && outputs <= 0xFFFF ==> r.args == args && r.outputs == outputs", "r.under_args == 0 && r.under_outputs == 0"],
  desc="Signature::new is exact within u16 (the `as u16` truncation is the precondition of every caller)")
U(id="C02.e2.sig.with_under", props=["C02"], kind="fn", file=SIGF, impl=SIGIMPL, impl_name="Signature", fn="with_under",
  target="impl Signature", ret="r",
  ensures=["r.args == self.args && r.outputs == self.outputs",
           "under_args <= 0xFFFF && under_outputs <= 0xFFFF ==> r.under_args == under_args && r.under_outputs == under_outputs"],
  desc="with_under keeps the main signature")
U(id="C02.e2.sig.compose", props=["C02", "C09"], kind="fn", file=SIGF, impl=SIGIMPL, impl_name="Signature", fn="compose",
  target="impl Signature", ret="r",
  requires=["self.args + other.args <= 0xFFFF", "self.outputs + other.outputs <= 0xFFFF",
            "self.under_args + other.under_args <= 0xFFFF", "self.under_outputs + other.under_outputs <= 0xFFFF"],
  ensures=[
      "forall|h: int| h >= 0 ==> #[trigger] eff(r.args as int, r.outputs as int, h) == eff_then(other.args as int, other.outputs as int, self.args as int, self.outputs as int, h)",
      "forall|h: int| h >= 0 ==> #[trigger] eff(r.under_args as int, r.under_outputs as int, h) == eff_then(other.under_args as int, other.under_outputs as int, self.under_args as int, self.under_outputs as int, h)",
      "r.args == other.args + monus(self.args as int, other.outputs as int)",
      "r.outputs == self.outputs + monus(other.outputs as int, self.args as int)",
  ],
  desc="f.compose(g) denotes running g then f, as stack-height transformers, for every height (main and under stack)")
U(id="C03.e2.sig.inverse", props=["C03", "C02"], kind="fn", file=SIGF, impl=SIGIMPL, impl_name="Signature", fn="inverse",
  target="impl Signature", ret="r", ensures=["r.args == self.outputs && r.outputs == self.args", "r.under_args == 0 && r.under_outputs == 0"],
  desc="inverse is the mirror image")
U(id="C03.e2.sig.anti", props=["C03", "C02"], kind="fn", file=SIGF, impl=SIGIMPL, impl_name="Signature", fn="anti",
  target="impl Signature", ret="r", requires=["self.outputs < 0xFFFF"],
  ensures=["r.is_none() <==> self.args == 0",
           "r.is_some() ==> r.unwrap().args == self.outputs + 1 && r.unwrap().outputs == self.args - 1 && r.unwrap().under_args == 0 && r.unwrap().under_outputs == 0"],
  desc="anti is the dual signature, defined iff the function takes an argument")
U(id="C04.e2.sig.under", props=["C04", "C02"], kind="fn", file=SIGF, impl=SIGIMPL, impl_name="Signature", fn="under",
  target="impl Signature", ret="r", ensures=["r.args == self.under_args && r.outputs == self.under_outputs"],
  desc="under() is the context-stack part of the signature")

# =====================================================================
# src/check.rs : Stack (verbatim)
# =====================================================================
CHK = "src/check.rs"
ROOM = "stack_room2(*old(self))"
INV = "old(self).min_height as int >= -(old(self).height as int)"
U(id="C02.e2.stack.set_min_height", props=["C02", "C09"], kind="fn", file=CHK, impl=STACKIMPL, impl_name="Stack", fn="set_min_height",
  target="impl Stack", requires=["old(self).height > -0x7FFF_FFFF"],
  ensures=["final(self).height == old(self).height",
           "final(self).min_height as int == max(old(self).min_height as int, max(-(old(self).height as int), 0))"],
  desc="min_height is the running maximum of the deficit")
U(id="C02.e2.stack.pop", props=["C02", "C09"], kind="fn", file=CHK, impl=STACKIMPL, impl_name="Stack", fn="pop",
  target="impl Stack", requires=[ROOM, INV],
  ensures=["sv(*final(self)) == app(sv(*old(self)), 1, 0)", "final(self).min_height as int >= -(final(self).height as int)"],
  desc="pop acts as |1.0 on the view")
U(id="C02.e2.stack.pop_n", props=["C02", "C09"], kind="fn", file=CHK, impl=STACKIMPL, impl_name="Stack", fn="pop_n",
  target="impl Stack", requires=[ROOM, INV, "n <= 0x20000"],
  ensures=["sv(*final(self)) == app(sv(*old(self)), n as int, 0)", "final(self).min_height as int >= -(final(self).height as int)"],
  desc="pop_n acts as |n.0 on the view")
U(id="C02.e2.stack.push", props=["C02", "C09"], kind="fn", file=CHK, impl=STACKIMPL, impl_name="Stack", fn="push",
  target="impl Stack", requires=[ROOM, INV],
  ensures=["sv(*final(self)) == app(sv(*old(self)), 0, 1)", "final(self).min_height as int >= -(final(self).height as int)"],
  desc="push acts as |0.1 on the view")
U(id="C02.e2.stack.push_n", props=["C02", "C09"], kind="fn", file=CHK, impl=STACKIMPL, impl_name="Stack", fn="push_n",
  target="impl Stack", requires=[ROOM, INV, "n <= 0x20000"],
  ensures=["sv(*final(self)) == app(sv(*old(self)), 0, n as int)", "final(self).min_height as int >= -(final(self).height as int)"],
  desc="push_n acts as |0.n on the view")
U(id="C02.e2.stack.handle_args_outputs", props=["C02", "C09"], kind="fn", file=CHK, impl=STACKIMPL, impl_name="Stack", fn="handle_args_outputs",
  target="impl Stack", requires=["stack_room(*old(self))", "args <= 0x20000", "outputs <= 0x20000"],
  ensures=["sv(*final(self)) == app(sv(*old(self)), args as int, outputs as int)", "final(self).min_height as int >= -(final(self).height as int)"],
  desc="handle_args_outputs(a,o) acts as |a.o on the view")
U(id="C02.e2.stack.sig", props=["C02", "C09"], kind="fn", file=CHK, impl=STACKIMPL, impl_name="Stack", fn="sig",
  target="impl Stack", ret="r",
  requires=["self.min_height as int >= -(self.height as int)", "self.min_height <= 0xFFFF", "self.height + self.min_height <= 0xFFFF", "self.height > -0x10000"],
  ensures=["(r.args as int, r.outputs as int) == sv_sig(sv(*self))", "r.under_args == 0 && r.under_outputs == 0"],
  desc="the reported signature is (least height needed, what is left on top of it)")

# the checker's own composition law, proved from the real Stack ops via the lemmas of the shim
U(id="C02.e2.lemma.app_compose_is_compose", props=["C02"], kind="lemma", target="", text='''
    pub proof fn lemma_view_matches_compose(v: SV, f: Signature, g: Signature)
        requires v.m >= -v.h,
        ensures
            // running g's effect then f's effect on the checker view is the effect of the composed signature
            app(app(v, g.args as int, g.outputs as int), f.args as int, f.outputs as int)
                == app(v, g.args + monus(f.args as int, g.outputs as int), f.outputs + monus(g.outputs as int, f.args as int)),
    {
        lemma_app_compose(v, g.args as int, g.outputs as int, f.args as int, f.outputs as int);
    }
''', desc="app (the checker's view transformer) composes exactly as Signature::compose does")

# =====================================================================
# src/check.rs : VirtualEnv helpers and arms of VirtualEnv::node
# =====================================================================
SMALL = "stack_small(old(self).stack) && stack_small(old(self).under)"
ARMSIG = "fn {name}(&mut self, args: &[SigNode]) -> (r: Result<(), SigCheckError>)"


def both_views(a_main, o_main, a_under="0", o_under="0"):
    return [
        f"r.is_ok() ==> sv(final(self).stack) == app(sv(old(self).stack), {a_main}, {o_main})",
        f"r.is_ok() ==> sv(final(self).under) == app(sv(old(self).under), {a_under}, {o_under})",
    ]


for fname, req, ens in [
    ("push", ["stack_room(old(self).stack)"], ["sv(final(self).stack) == app(sv(old(self).stack), 0, 1)", "final(self).under == old(self).under", "final(self).node_depth == old(self).node_depth", "final(self).stack.min_height as int >= -(final(self).stack.height as int)"]),
    ("pop", ["stack_room(old(self).stack)"], ["sv(final(self).stack) == app(sv(old(self).stack), 1, 0)", "final(self).under == old(self).under", "final(self).node_depth == old(self).node_depth", "final(self).stack.min_height as int >= -(final(self).stack.height as int)"]),
]:
    U(id=f"C02.e2.venv.{fname}", props=["C02"], kind="fn", file=CHK, impl=VENVIMPL, impl_name="VirtualEnv", fn=fname,
      target="impl VirtualEnv", requires=req, ensures=ens, desc=f"VirtualEnv::{fname} touches only the main stack view")
U(id="C02.e2.venv.handle_args_outputs", props=["C02"], kind="fn", file=CHK, impl=VENVIMPL, impl_name="VirtualEnv", fn="handle_args_outputs",
  target="impl VirtualEnv",
  requires=["stack_room(old(self).stack)", "args <= 0x20000", "outputs <= 0x20000"],
  ensures=["sv(final(self).stack) == app(sv(old(self).stack), args as int, outputs as int)", "final(self).under == old(self).under",
           "final(self).node_depth == old(self).node_depth", "final(self).stack.min_height as int >= -(final(self).stack.height as int)"],
  desc="VirtualEnv::handle_args_outputs acts as |a.o on the main view only")
U(id="C02.e2.venv.handle_sig", props=["C02", "C04"], kind="fn", file=CHK, impl=VENVIMPL, impl_name="VirtualEnv", fn="handle_sig",
  target="impl VirtualEnv",
  requires=["stack_room(old(self).stack)", "stack_room(old(self).under)"],
  ensures=["sv(final(self).stack) == app(sv(old(self).stack), sig.args as int, sig.outputs as int)",
           "sv(final(self).under) == app(sv(old(self).under), sig.under_args as int, sig.under_outputs as int)",
           "final(self).node_depth == old(self).node_depth",
           "final(self).stack.min_height as int >= -(final(self).stack.height as int)",
           "final(self).under.min_height as int >= -(final(self).under.height as int)"],
  desc="handle_sig applies the main part to the main view and the under part to the context view")


def chk_arm(name, arm, props, ens, req=(), hints=(), desc="", rewrites=(), loops=None, sig=None, allow=()):
    U(id=f"C02.e2.chk.arm_{name}", props=props, kind="arm", file=CHK, impl=VENVIMPL, impl_name="VirtualEnv", fn="node", arm=arm,
      target="impl VirtualEnv", sig=(sig or ARMSIG).format(name="chk_arm_" + name), tail="Ok(())",
      requires=[SMALL] + list(req), ensures=ens, hints=list(hints), desc=desc, rewrites=list(rewrites), loops=loops, allow=allow)


A1 = "args@.len() == 1"
F = "args@[0].sig"
chk_arm("dip", r"Dip", ["C02", "C07"], [f"r.is_ok() ==> {A1}"] + both_views(f"{F}.args + 1", f"{F}.outputs + 1", f"{F}.under_args as int", f"{F}.under_outputs as int"),
        desc="dip F : |a+1.o+1 (checker arm, modulo IH for the operand)")
chk_arm("gap", r"Gap", ["C02", "C07"], [f"r.is_ok() ==> {A1}"] + both_views(f"{F}.args + 1", f"{F}.outputs as int", f"{F}.under_args as int", f"{F}.under_outputs as int"),
        desc="gap F : |a+1.o")
chk_arm("on", r"On", ["C02", "C07"], [f"r.is_ok() ==> {A1}"] + both_views(f"max({F}.args as int, 1)", f"{F}.outputs + 1 + max({F}.args as int, 1) - {F}.args", f"{F}.under_args as int", f"{F}.under_outputs as int"),
        desc="on F : |max(a,1).o+1(+1 if a=0)")
chk_arm("by", r"By", ["C02", "C07"], [f"r.is_ok() ==> {A1}"] + both_views(f"{F}.args as int", f"{F}.outputs + 1", f"{F}.under_args as int", f"{F}.under_outputs as int"),
        desc="by F : |a.o+1")
chk_arm("with_off", r"With \| Off", ["C02", "C07"], [f"r.is_ok() ==> {A1}"] + [f"r.is_ok() ==> sv(final(self).stack) == app(sv(old(self).stack), {F}.args as int, {F}.outputs + 1)", "final(self).under == old(self).under"],
        desc="with F / off F : |a.o+1")
chk_arm("above_below", r"Above \| Below", ["C02", "C07"], [f"r.is_ok() ==> {A1}"] + [f"r.is_ok() ==> sv(final(self).stack) == app(sv(old(self).stack), {F}.args as int, {F}.args + {F}.outputs)", "final(self).under == old(self).under"],
        desc="above F / below F : |a.a+o")
chk_arm("both", r"Both", ["C02", "C07"], [f"r.is_ok() ==> {A1}"] + both_views(f"2 * {F}.args", f"2 * {F}.outputs", f"{F}.under_args + monus({F}.under_args as int, {F}.under_outputs as int)", f"{F}.under_outputs + monus({F}.under_outputs as int, {F}.under_args as int)"),
        hints=["lemma_app_compose(sv(old(self).under), args@[0].sig.under_args as int, args@[0].sig.under_outputs as int, args@[0].sig.under_args as int, args@[0].sig.under_outputs as int);"],
        desc="both F : |2a.2o ; context stack: F's under effect twice")
chk_arm("reach", r"Reach", ["C02", "C07"], [f"r.is_ok() ==> {A1}"] + both_views(f"max({F}.args + 1, 2)", f"{F}.outputs + max({F}.args + 1, 2) - {F}.args - 1", f"{F}.under_args as int", f"{F}.under_outputs as int"),
        desc="reach F : removes the second value, then F")
chk_arm("un", r"Un", ["C02", "C03"], [f"r.is_ok() ==> {A1}"] + both_views(f"{F}.outputs as int", f"{F}.args as int"),
        desc="un F is checked with the mirror image of F's signature")
chk_arm("anti", r"Anti", ["C02", "C03"], [f"r.is_ok() ==> {A1}",
        f"r.is_ok() && {F}.args >= 1 ==> sv(final(self).stack) == app(sv(old(self).stack), {F}.outputs + 1, {F}.args - 1)",
        f"r.is_ok() && {F}.args == 0 ==> sv(final(self).stack) == app(sv(old(self).stack), {F}.args as int, {F}.outputs as int)"],
        req=[f"args@.len() == 1 ==> {F}.outputs < 0xFFFF"],
        desc="anti F is checked with the dual signature |o+1.a-1 (F's own when F takes nothing)")
chk_arm("table_tuples", r"Table \| Tuples", ["C02"], [f"r.is_ok() ==> {A1}"] + both_views(f"{F}.args as int", f"{F}.outputs as int", f"{F}.under_args as int", f"{F}.under_outputs as int"),
        desc="table F / tuples F have F's signature")
chk_arm("group_partition", r"Group \| Partition", ["C02"], [f"r.is_ok() ==> {A1}", f"r.is_ok() ==> sv(final(self).stack) == app(sv(old(self).stack), max({F}.args as int, 1) + 1, {F}.outputs as int)", "final(self).under == old(self).under"],
        desc="group F / partition F : |max(a,1)+1.o")
chk_arm("spawn_pool", r"Spawn \| Pool", ["C02"], [f"r.is_ok() ==> {A1}", f"r.is_ok() ==> sv(final(self).stack) == app(sv(old(self).stack), {F}.args as int, 1)", "final(self).under == old(self).under"],
        desc="spawn F / pool F : |a.1")
chk_arm("reduce_scan", r"Reduce \| Scan", ["C02"], [f"r.is_ok() ==> {A1}", f"r.is_ok() ==> sv(final(self).stack) == app(sv(old(self).stack), max(monus({F}.args as int, {F}.outputs as int), 1), {F}.outputs as int)", "final(self).under == old(self).under"],
        desc="reduce F / scan F : |max(a-o,1).o")
chk_arm("each_rows_inventory", r"Each \| Rows \| Inventory", ["C02", "C07"], [f"r.is_ok() ==> {A1}"] + both_views(f"{F}.args as int", f"{F}.outputs as int", f"{F}.under_args as int", f"{F}.under_outputs as int"),
        desc="each/rows/inventory F have F's signature")
chk_arm("case", r"Case", ["C02"], [f"r.is_ok() ==> {A1}"] + both_views(f"{F}.args as int", f"{F}.outputs as int", f"{F}.under_args as int", f"{F}.under_outputs as int"),
        desc="case F has F's signature")
chk_arm("content_memo_comptime", r"Content \| Memo \| Comptime", ["C02"], [f"r.is_ok() ==> {A1}"] + both_views(f"{F}.args as int", f"{F}.outputs as int", f"{F}.under_args as int", f"{F}.under_outputs as int"),
        desc="content/memo/comptime F have F's signature")
chk_arm("label", r"Node::Label\(\.\.\) \| Node::RemoveLabel\(\.\.\)", ["C02"], ["r.is_ok()", "sv(final(self).stack) == app(sv(old(self).stack), 1, 1)", "final(self).under == old(self).under"],
        desc="label nodes : |1.1")
chk_arm("bind_global", r"Node::BindGlobal \{ \.\. \}", ["C02"], ["sv(final(self).stack) == app(sv(old(self).stack), 1, 0)", "final(self).under == old(self).under"],
        desc="binding a global consumes one value")
chk_arm("push", r"Node::Push\(_\)", ["C02"], ["sv(final(self).stack) == app(sv(old(self).stack), 0, 1)", "final(self).under == old(self).under"],
        desc="a constant pushes one value")

chk_arm("onsub_family", r"&OnSub\(n\) \| &BySub\(n\) \| &WithSub\(n\) \| &OffSub\(n\)", ["C02", "C07"],
        [f"r.is_ok() ==> {A1}"] + both_views(f"max({F}.args as int, n as int)", f"max({F}.args as int, n as int) - {F}.args + {F}.outputs + n", f"{F}.under_args as int", f"{F}.under_outputs as int"),
        req=["n <= 0xFFFF"], sig="fn {name}(&mut self, args: &[SigNode], n: usize) -> (r: Result<(), SigCheckError>)",
        desc="on_n / by_n / with_n / off_n F : |m.(m-a+o+n) with m = max(a,n): the modifier reads max(n, a) values — the same count the run-time arms need (C07.e2.rt.arm_onsub/bysub/withsub)")

chk_arm("array", r"Node::Array \{ len, inner, \.\. \}", ["C02"],
        ["r.is_ok() ==> sv(final(self).stack) == app(app(sv(old(self).stack), node_sig(*inner).args as int, node_sig(*inner).outputs as int), *len as int, 1)",
         "r.is_ok() ==> sv(final(self).under) == app(sv(old(self).under), node_sig(*inner).under_args as int, node_sig(*inner).under_outputs as int)"],
        req=["*len <= 0x10000"], sig="fn {name}(&mut self, len: &usize, inner: &Node) -> (r: Result<(), SigCheckError>)",
        desc="array literal: the inner code runs, then exactly `len` values become one")
chk_arm("unpack", r"Node::Unpack \{ count, \.\. \}", ["C02"],
        ["r.is_ok() ==> sv(final(self).stack) == app(sv(old(self).stack), 1, *count as int)", "final(self).under == old(self).under"],
        req=["*count <= 0x10000"], sig="fn {name}(&mut self, count: &usize) -> (r: Result<(), SigCheckError>)",
        desc="unpack: one array becomes `count` values")
chk_arm("switch", r"&Node::Switch \{\s*sig, under_cond, \.\.\s*\}", ["C02"],
        ["r.is_ok() ==> sv(final(self).stack) == app(app(sv(old(self).stack), 1, 0), sig.args as int, sig.outputs as int)",
         "r.is_ok() ==> sv(final(self).under) == app(app(sv(old(self).under), sig.under_args as int, sig.under_outputs as int), 0, if under_cond { 1int } else { 0int })"],
        sig="fn {name}(&mut self, sig: Signature, under_cond: bool) -> (r: Result<(), SigCheckError>)",
        desc="switch: the selector is consumed, then the branches' common signature; an under-switch stashes the selector on the context stack")
chk_arm("call_global", r"Node::CallMacro \{ sig, \.\. \} \| Node::CallGlobal\(_, sig\)", ["C02"],
        both_views("sig.args as int", "sig.outputs as int", "sig.under_args as int", "sig.under_outputs as int"),
        sig="fn {name}(&mut self, sig: &Signature) -> (r: Result<(), SigCheckError>)",
        desc="a call of a bound function / macro is checked with the signature recorded at the call site")
chk_arm("try_pattern", r"Try \| Pattern", ["C02", "C11"],
        both_views("try_sig_spec(args@).args as int", "try_sig_spec(args@).outputs as int", "try_sig_spec(args@).under_args as int", "try_sig_spec(args@).under_outputs as int"),
        desc="try / pattern are checked with exactly the signature `try_sig` computes — the function the run-time `try_` uses too")
U(id="C02.e2.venv.fill", props=["C02"], kind="fn", file=CHK, impl=VENVIMPL, impl_name="VirtualEnv", fn="fill",
  target="impl VirtualEnv", ret="r", requires=[SMALL],
  rewrites=[("R2", r"let \[fill, f\] = get_args_nodes\(args\)\?;", "let (fill, f) = get_args_nodes_2(args)?;", "slice pattern (2) -> arity-checked shim fn")],
  ensures=["r.is_ok() ==> args@.len() == 2",
           "r.is_ok() && args@[0].sig.outputs > 0 ==> sv(final(self).stack) == app(app(app(sv(old(self).stack), args@[0].sig.args as int, args@[0].sig.outputs as int), args@[0].sig.outputs as int, 0), args@[1].sig.args as int, args@[1].sig.outputs as int)",
           "r.is_ok() && args@[0].sig.outputs == 0 ==> sv(final(self).stack) == app(app(sv(old(self).stack), 0, 0), args@[1].sig.args as int, args@[1].sig.outputs as int)"],
  desc="fill: a fill function that produces values runs first and its outputs are consumed as the fill value(s); then F")

NSIG = "fn {name}(&mut self, n: &usize) -> (r: Result<(), SigCheckError>)"
LOOPINV = lambda a, o, ua, uo: [
    "invariant",
    "    *n <= 0x1000,",
    f"    sv(self.stack) == app(sv(old(self).stack), {a}, {o}),",
    f"    sv(self.under) == app(sv(old(self).under), {ua}, {uo}),",
    "    stack_small(old(self).stack) && stack_small(old(self).under),",
    "    self.stack.min_height as int >= -(self.stack.height as int),",
    "    self.under.min_height as int >= -(self.under.height as int),",
    "    self.node_depth == old(self).node_depth,",
]
# NB: the for-loop variable is `_`; Verus needs a named ghost iterator — rewrite `for _ in 0..*n` to `for i in 0..*n`
FORRW = [("R9", r"for _ in 0\.\.\*n \{", "for i in iter: 0..*n {", "anonymous loop variable named (Verus needs a named iterator for the invariant)")]
chk_arm("push_under", r"Node::PushUnder\(n, _\)", ["C02", "C04"], both_views("*n as int", "0", "0", "*n as int"),
        req=["*n <= 0x1000"], sig=NSIG, rewrites=FORRW,
        loops={0: LOOPINV("i as int", "0", "0", "i as int")},
        desc="PushUnder(n): main |n.0, context |0.n")
chk_arm("copy_to_under", r"Node::CopyToUnder\(n, _\)", ["C02", "C04"],
        ["r.is_ok() ==> sv(final(self).under) == app(sv(old(self).under), 0, *n as int)",
         "r.is_ok() ==> final(self).stack.height == old(self).stack.height",
         "r.is_ok() ==> final(self).stack.min_height as int == max(old(self).stack.min_height as int, if *n > 0 { 1 - old(self).stack.height } else { 0 })"],
        req=["*n <= 0x1000"], sig=NSIG, rewrites=FORRW,
        loops={0: [
            "invariant",
            "    *n <= 0x1000,",
            "    self.stack.height == old(self).stack.height,",
            "    self.stack.min_height as int == max(old(self).stack.min_height as int, if i > 0 { 1 - old(self).stack.height } else { 0 }),",
            "    sv(self.under) == app(sv(old(self).under), 0, i as int),",
            "    stack_small(old(self).stack) && stack_small(old(self).under),",
            "    self.stack.min_height as int >= -(self.stack.height as int),",
            "    self.under.min_height as int >= -(self.under.height as int),",
            "    self.node_depth == old(self).node_depth,",
        ]},
        desc="CopyToUnder(n): as checked, needs ONE value per step (height unchanged, deficit 1), context |0.n — see DESIGN: the run-time arm needs n values at once")
chk_arm("pop_under", r"Node::PopUnder\(n, _\)", ["C02", "C04"], both_views("0", "*n as int", "*n as int", "0"),
        req=["*n <= 0x1000"], sig=NSIG, rewrites=FORRW,
        loops={0: LOOPINV("0", "i as int", "i as int", "0")},
        desc="PopUnder(n): main |0.n, context |n.0")

# fill() and repeat()
U(id="C02.e2.venv.repeat", props=["C02"], kind="fn", file=CHK, impl=VENVIMPL, impl_name="VirtualEnv", fn="repeat",
  target="impl VirtualEnv", ret="r", requires=[SMALL],
  ensures=["r.is_ok() && sn.sig.outputs <= sn.sig.args ==> sv(final(self).stack) == app(sv(old(self).stack), sn.sig.args as int, sn.sig.outputs as int)",
           "r.is_ok() && sn.sig.outputs > sn.sig.args ==> sv(final(self).stack) == app(app(sv(old(self).stack), sn.sig.args as int, sn.sig.outputs as int), sn.sig.args as int, 0)"],
  desc="repeat F: F's effect once; for a growing F the checker additionally demands F's arguments again (so a second iteration is possible)")

# vacuity guards / canary (must FAIL)
U(id="C02.e2.canary", props=["C02", "C03", "C04", "C07", "C11"], kind="lemma", target="", expect="fail", text='''
    pub proof fn canary_false()
        ensures false,
    {
    }
''', desc="deliberately false obligation: shows Verus really checks the generated file")
U(id="C02.e2.chk.reach_small", props=["C02"], kind="lemma", target="", expect="fail", text='''
    pub proof fn reach_stack_small(s: Stack)
        requires stack_small(s), s.height == 5, s.min_height == 3,
        ensures false,
    {
    }
''', desc="vacuity guard: the numeric precondition of the checker arms is satisfiable")

# =====================================================================
# src/run_prim.rs : argument-routing arms of run_prim_mod / ImplPrimitive::run_mod
#   content-level contracts (C07) — their lengths give the stack effect (C02)
# =====================================================================
RP = "src/run_prim.rs"
RTSIG = "fn {name}(ops: Ops, env: &mut Uiua) -> (r: UiuaResult)"
RTSIGN = "fn {name}(n: usize, ops: Ops, env: &mut Uiua) -> (r: UiuaResult)"
S = "old(env).rt.stack@"
F0 = "ops@[0]"
WF1 = "ops@.len() == 1 ==> wf_sn(ops@[0])"
FRAME = ["scoped_same(old(env).rt, final(env).rt)"]
UNDER_F = [f"r.is_ok() ==> final(env).rt.under_stack@.len() == old(env).rt.under_stack@.len() - {F0}.sig.under_args + {F0}.sig.under_outputs"]


ERRARGS = {
    # total number of values the modifier may touch (its own signature's args), as a spec expression over f = ops@[0]
    "dip": "f.sig.args + 1", "on": "max(f.sig.args as int, 1)", "by": "f.sig.args as int", "above": "f.sig.args as int", "below": "f.sig.args as int",
    "with": "f.sig.args as int", "off": "f.sig.args as int", "both": "2 * f.sig.args", "dipn": "f.sig.args + n", "onsub": "max(f.sig.args as int, n as int)",
    "bysub": "max(f.sig.args as int, n as int)", "withsub": "max(f.sig.args as int, n as int)",
}


def rt_arm(name, fn, arm, props, req, ens, hints=(), desc="", sig=RTSIG, sub_if=None, impl=None, impl_name=""):
    ens = list(ens)
    if name in ERRARGS and not any("r.is_err()" in e for e in ens):
        # the failure clause of IH-runtime is itself inductive: a failing modifier touches nothing beneath ITS arguments
        ens.append("r.is_err() && ops@.len() == 1 ==> ({ let f = ops@[0]; let s = " + S + "; let k = monus(s.len() as int, " + ERRARGS[name] + ");"
                   " final(env).rt.stack@.len() >= k && final(env).rt.stack@.subrange(0, k) =~= s.subrange(0, k) })")
    U(id=f"C07.e2.rt.arm_{name}", props=props + (["C11"] if name in ERRARGS else []), kind="arm", file=RP, impl=impl, impl_name=impl_name, fn=fn, arm=arm, sub_if=sub_if,
      target="", sig=sig.format(name="rt_arm_" + name), tail="Ok(())", requires=list(req), ensures=ens + FRAME, hints=list(hints), desc=desc)


def let(a="a"):
    return f"let f = {F0}; let s = {S}; let {a} = f.sig.args as int;"


rt_arm("dip", "run_prim_mod", r"Primitive::Dip", ["C07", "C02"], [WF1],
       ["r.is_ok() ==> ops@.len() == 1",
        "r.is_ok() ==> ({ " + let() + " s.len() >= a + 1 && final(env).rt.stack@ =~= below(s, a + 1) + node_out(f.node, top(s, a + 1).subrange(0, a)) + seq![s.last()] })",
        "r.is_err() && ops@.len() == 1 ==> ({ " + let() + " final(env).rt.stack@.len() >= monus(s.len() as int, a + 1) && final(env).rt.stack@.subrange(0, monus(s.len() as int, a + 1)) =~= s.subrange(0, monus(s.len() as int, a + 1)) })"],
       hints=["let s = old(env).rt.stack@; let a = ops@[0].sig.args as int;",
              "assert(top(s.drop_last(), a) =~= top(s, a + 1).subrange(0, a));",
              "assert(below(s.drop_last(), a) =~= below(s, a + 1));"],
       desc="dip F x ys = x, F ys : F sees exactly the values beneath the top one; the top value is put back unchanged; nothing beneath F's arguments is touched (also on failure)")
rt_arm("on", "run_prim_mod", r"Primitive::On", ["C07", "C02"], [WF1],
       ["r.is_ok() ==> ops@.len() == 1",
        "r.is_ok() ==> ({ " + let() + " s.len() >= max(a, 1) && final(env).rt.stack@ =~= below(s, a) + node_out(f.node, top(s, a)) + seq![s.last()] })"],
       desc="on F x ys = x, F x ys : F sees the original arguments, a copy of the first is put on top")
rt_arm("by", "run_prim_mod", r"Primitive::By", ["C07", "C02"], [WF1, f"ops@.len() == 1 ==> {F0}.sig.args >= 1"],
       ["r.is_ok() ==> ops@.len() == 1",
        "r.is_ok() ==> ({ " + let() + " s.len() >= a && final(env).rt.stack@ =~= below(s, a) + seq![top(s, a)[0]] + node_out(f.node, top(s, a)) })"],
       hints=["let s = old(env).rt.stack@; let a = ops@[0].sig.args as int;",
              "let s1 = below(s, a) + top(s, a).subrange(0, 1) + top(s, a);",
              "assert(top(s1, a) =~= top(s, a));",
              "assert(below(s1, a) =~= below(s, a) + seq![top(s, a)[0]]);"],
       desc="by F : F's last (deepest) argument is kept beneath F's results (requires a >= 1: the compiler rewrites `by` of a noadic function)")
rt_arm("above", "run_prim_mod", r"Primitive::Above", ["C07", "C02"], [WF1],
       ["r.is_ok() ==> ops@.len() == 1",
        "r.is_ok() ==> ({ " + let() + " s.len() >= a && final(env).rt.stack@ =~= below(s, a) + node_out(f.node, top(s, a)) + top(s, a) })"],
       desc="above F xs = xs, F xs")
rt_arm("below", "run_prim_mod", r"Primitive::Below", ["C07", "C02"], [WF1],
       ["r.is_ok() ==> ops@.len() == 1",
        "r.is_ok() ==> ({ " + let() + " s.len() >= a && final(env).rt.stack@ =~= below(s, a) + top(s, a) + node_out(f.node, top(s, a)) })"],
       hints=["let s = old(env).rt.stack@; let a = ops@[0].sig.args as int;",
              "let s1 = below(s, a) + top(s, a).subrange(0, a) + top(s, a);",
              "assert(top(s1, a) =~= top(s, a));",
              "assert(below(s1, a) =~= below(s, a) + top(s, a));"],
       desc="below F xs = F xs, xs")
rt_arm("with", "run_prim_mod", r"Primitive::With", ["C07", "C02"], [WF1, f"ops@.len() == 1 ==> {F0}.sig.args >= 1"],
       ["r.is_ok() ==> ops@.len() == 1",
        "r.is_ok() ==> ({ " + let() + " s.len() >= a && final(env).rt.stack@ =~= below(s, a) + node_out(f.node, top(s, a)) + seq![top(s, a)[0]] })"],
       desc="with F : F's last (deepest) argument is put on top of F's results")
rt_arm("off", "run_prim_mod", r"Primitive::Off", ["C07", "C02"], [WF1, f"ops@.len() == 1 ==> {F0}.sig.args >= 1 && {F0}.sig.outputs < 0xFFFF"],
       ["r.is_ok() ==> ops@.len() == 1",
        "r.is_ok() ==> ({ " + let() + " s.len() >= a && final(env).rt.stack@ =~= below(s, a) + seq![s.last()] + node_out(f.node, top(s, a)) })"],
       desc="off F : F's first (top) argument is kept beneath F's results")
rt_arm("both", "run_prim_mod", r"Primitive::Both", ["C07", "C02"], [WF1],
       ["r.is_ok() ==> ops@.len() == 1",
        "r.is_ok() ==> ({ " + let() + " s.len() >= 2 * a && final(env).rt.stack@ =~= below(s, 2 * a) + node_out(f.node, top(s, 2 * a).subrange(0, a)) + node_out(f.node, top(s, a)) })"],
       hints=["let s = old(env).rt.stack@; let a = ops@[0].sig.args as int;",
              "let s1 = below(s, a);",
              "assert(top(s1, a) =~= top(s, 2 * a).subrange(0, a));",
              "assert(below(s1, a) =~= below(s, 2 * a));",
              "let s2 = below(s1, a) + node_out(ops@[0].node, top(s1, a)) + top(s, a);",
              "assert(top(s2, a) =~= top(s, a));",
              "assert(below(s2, a) =~= below(s1, a) + node_out(ops@[0].node, top(s1, a)));"],
       desc="both F : two independent applications, to the deeper group first, results in the documented order")
rt_arm("fork2", "run_prim_mod", r"Primitive::Fork", ["C07", "C02"], ["ops@.len() == 2 ==> wf_sn(ops@[0]) && wf_sn(ops@[1])"],
       ["r.is_ok() ==> ops@.len() == 2",
        "r.is_ok() ==> ({ let f = ops@[0]; let g = ops@[1]; let s = " + S + "; let fa = f.sig.args as int; let ga = g.sig.args as int; let m = max(fa, ga);"
        " s.len() >= m && final(env).rt.stack@ =~= below(s, m) + node_out(g.node, top(s, ga)) + node_out(f.node, top(s, fa)) })"],
       sub_if=r"ops\.len\(\) == 2",
       hints=["let s = old(env).rt.stack@; let fa = ops@[0].sig.args as int; let ga = ops@[1].sig.args as int;",
              "if fa > ga {",
              "    let s1 = below(s, fa) + top(s, ga);",
              "    assert(top(s1, ga) =~= top(s, ga));",
              "    assert(below(s1, ga) =~= below(s, fa));",
              "    let s2 = below(s, fa) + node_out(ops@[1].node, top(s, ga)) + top(s, fa);",
              "    assert(top(s2, fa) =~= top(s, fa));",
              "    assert(below(s2, fa) =~= below(s, fa) + node_out(ops@[1].node, top(s, ga)));",
              "} else {",
              "    let s2 = below(s, ga) + node_out(ops@[1].node, top(s, ga)) + top(s, fa);",
              "    assert(top(s2, fa) =~= top(s, fa));",
              "    assert(below(s2, fa) =~= below(s, ga) + node_out(ops@[1].node, top(s, ga)));",
              "}"],
       desc="fork F G xs = F xs, G xs (two-operand branch): both see the same arguments; G's results beneath F's")
IMPLRM = r"^impl ImplPrimitive \{"
rt_arm("dipn", "run_mod", r"&ImplPrimitive::DipN\(n\)", ["C07", "C02"], [WF1],
       ["r.is_ok() ==> ops@.len() == 1",
        "r.is_ok() ==> ({ " + let() + " s.len() >= a + n && final(env).rt.stack@ =~= below(s, a + n) + node_out(f.node, top(s, a + n).subrange(0, a)) + top(s, n as int) })"],
       hints=["let s = old(env).rt.stack@; let a = ops@[0].sig.args as int;",
              "let s1 = below(s, n as int);",
              "assert(top(s1, a) =~= top(s, a + n).subrange(0, a));",
              "assert(below(s1, a) =~= below(s, a + n));"],
       sig=RTSIGN, desc="dip_n F : the top n values are set aside and put back unchanged")
rt_arm("onsub", "run_mod", r"&ImplPrimitive::OnSub\(n\)", ["C07", "C02"], [WF1],
       ["r.is_ok() ==> ops@.len() == 1",
        "r.is_ok() ==> ({ " + let() + " s.len() >= a && s.len() >= n && final(env).rt.stack@ =~= below(s, a) + node_out(f.node, top(s, a)) + top(s, n as int) })"],
       sig=RTSIGN, desc="on_n F : copies of the top n values are put on top of F's results")
rt_arm("bysub", "run_mod", r"&ImplPrimitive::BySub\(n\)", ["C07", "C02"], [WF1],
       ["r.is_ok() ==> ops@.len() == 1",
        "r.is_ok() ==> ({ " + let() + " let d = max(a, n as int); s.len() >= d && final(env).rt.stack@ =~= below(s, d) + top(s, d).subrange(0, n as int) + top(s, d).subrange(0, d - a) + node_out(f.node, top(s, a)) })"],
       hints=["let s = old(env).rt.stack@; let a = ops@[0].sig.args as int; let d = max(a, n as int);",
              "let s1 = below(s, d) + top(s, d).subrange(0, n as int) + top(s, d);",
              "assert(top(s1, a) =~= top(s, a));",
              "assert(below(s1, a) =~= below(s, d) + top(s, d).subrange(0, n as int) + top(s, d).subrange(0, d - a));"],
       sig=RTSIGN, desc="by_n F : copies of the deepest n of max(a,n) values are kept beneath")
rt_arm("withsub", "run_mod", r"&ImplPrimitive::WithSub\(n\)", ["C07", "C02"], [WF1],
       ["r.is_ok() ==> ops@.len() == 1",
        "r.is_ok() ==> ({ " + let() + " let d = max(a, n as int); s.len() >= d && final(env).rt.stack@ =~= below(s, a) + node_out(f.node, top(s, a)) + top(s, d).subrange(0, n as int) })"],
       sig=RTSIGN, desc="with_n F : copies of the deepest n of max(a,n) values are put on top")

# =====================================================================
# C03: the one place where an inverse's signature is assigned
# =====================================================================
R6_INTO = [("R6", r"\.into\(\)", "", "identity conversion on shim types dropped")]
U(id="C03.e2.signode.new", props=["C03", "C02"], kind="fn", file="src/tree.rs", impl=r"^impl SigNode \{", impl_name="SigNode", fn="new",
  target="impl SigNode", ret="r", rewrites=R6_INTO,
  head_rewrites=[("R6", r"impl Into<Signature>", "Signature", "generic conversion parameter -> shim type"), ("R6", r"impl Into<Node>", "Node", "generic conversion parameter -> shim type")],
  ensures=["r.sig == sig && r.node == node"], desc="SigNode::new stores exactly the signature it is given")
U(id="C03.e2.signode.un_inverse", props=["C03"], kind="fn", file="src/compile/invert/un.rs", impl=r"^impl SigNode \{", impl_name="SigNode", fn="un_inverse",
  target="impl SigNode", ret="r",
  ensures=["r.is_ok() ==> r.unwrap().sig.args == self.sig.outputs && r.unwrap().sig.outputs == self.sig.args"],
  desc="whenever un F compiles, its signature is the mirror image of F's")
U(id="C03.e2.signode.anti_inverse", props=["C03"], kind="fn", file="src/compile/invert/un.rs", impl=r"^impl SigNode \{", impl_name="SigNode", fn="anti_inverse",
  target="impl SigNode", ret="r", requires=["self.sig.outputs < 0xFFFF"],
  rewrites=[("R6", r"ok_or\(Generic\)", "ok_or(InversionError::Generic)", "glob-imported enum variant qualified")],
  ensures=["r.is_ok() ==> self.sig.args >= 1 && r.unwrap().sig.args == self.sig.outputs + 1 && r.unwrap().sig.outputs == self.sig.args - 1"],
  desc="whenever anti F compiles, its signature is the dual |o+1.a-1 (and F takes an argument)")

# =====================================================================
# C11 / C04: rollback and scoped state (src/run.rs)
# =====================================================================
RUN = "src/run.rs"
U(id="C11.e2.exec_clean_stack", props=["C11", "C04", "C02"], kind="fn", file=RUN, impl=UIUAIMPL, impl_name="Uiua", fn="exec_clean_stack",
  target="impl Uiua", ret="r", requires=["wf_sn(sn)"],
  ensures=[
      "scoped_same(old(self).rt, final(self).rt)",
      # failure: exactly the pre-state minus the arguments, on both stacks
      "r.is_err() ==> final(self).rt.stack@ =~= old(self).rt.stack@.subrange(0, monus(old(self).rt.stack@.len() as int, sn.sig.args as int))",
      "r.is_err() ==> final(self).rt.under_stack@ =~= old(self).rt.under_stack@.subrange(0, monus(old(self).rt.under_stack@.len() as int, sn.sig.under_args as int))",
      # success: as exec
      "r.is_ok() ==> old(self).rt.stack@.len() >= sn.sig.args && final(self).rt.stack@ == below(old(self).rt.stack@, sn.sig.args as int) + node_out(sn.node, top(old(self).rt.stack@, sn.sig.args as int))",
  ],
  desc="a failing operand leaves exactly the pre-state minus its arguments on BOTH stacks (no residue), for stacks of any depth; given IH-runtime's failure clause")
R5 = [("R5", r"in_ctx\(self\)", "in_ctx.call(self)", "closure call -> shim trait with assumed contract")]
R5H = [("R5", r"impl FnOnce\(&mut Self\) -> (UiuaResult<T>|T)", r"impl ScopedBody<\1>", "closure parameter -> shim trait"),
       ("R6", r"impl Into<FillFrame>", "FillFrame", "generic conversion parameter -> shim type")]
for fname in ("with_fill", "with_unfill", "without_fill"):
    U(id=f"C11.e2.{fname}.restores", props=["C11", "C14"][:1], kind="fn", file=RUN, impl=UIUAIMPL, impl_name="Uiua", fn=fname,
      target="impl Uiua", ret="r", rewrites=R5 + R6_INTO, head_rewrites=R5H,
      ensures=["scoped_same(old(self).rt, final(self).rt)"],
      desc=f"{fname}: every scoped stack has its entry length on exit, whether the body returned Ok or Err (no `?` between push and pop)")

# the run-time cross-check of a call frame against its signature (C02 item 5, C11 call depth)
U(id="C02.e2.exec_with_frame_span.height", props=["C02", "C11"], kind="fn", file=RUN, impl=UIUAIMPL, impl_name="Uiua", fn="exec_with_frame_span",
  target="impl Uiua", ret="r",
  requires=["frame.call_span < old(self).asm.spans@.len()", "_call_span < old(self).asm.spans@.len()", "old(self).rt.stack@.len() <= isize::MAX as nat"],
  rewrites=[("R4", r"(?m)^\s*#\[cfg\(debug_assertions\)\]\n\s*panic!\([^;]*\);\n", "", "debug-only panic twin of the release error dropped"),
            ("R4", r"(?m)^\s*#\[cfg\(not\(debug_assertions\)\)\]\n", "", "cfg attribute dropped (the release path is kept)"),
            ("R3", r"let message = if let Some\(id\) = &frame\.id \{.*?\n            \};", "let message = verif_msg();", "error text dropped"),
            ("R6", r"self\.exec\(node\.clone\(\)\)", "self.exec(node)", "clone of the node for the debug message dropped")],
  ensures=[
      # call depth is restored whatever happens
      "final(self).rt.call_stack@.len() == old(self).rt.call_stack@.len()",
      # success is only reported when the stack height changed by exactly outputs - args of the frame's signature
      "r.is_ok() ==> final(self).rt.stack@.len() as int - old(self).rt.stack@.len() as int == frame.sig.outputs as int - frame.sig.args as int",
  ],
  desc="exec_with_frame_span: the call frame is always popped again, and Ok is returned only if the stack height changed by exactly outputs - args of the frame's signature (release-build behaviour; the debug-build panic twin is dropped by R4)")

rt_arm("offsub", "run_mod", r"&ImplPrimitive::OffSub\(n\)", ["C07", "C02"], [WF1],
       ["r.is_ok() ==> ops@.len() == 1",
        "r.is_ok() ==> ({ " + let() + " let d = max(a, n as int); let o = f.sig.outputs as int; s.len() >= d && final(env).rt.stack@.len() == s.len() - a + o + n })",
        "r.is_ok() && ops@[0].sig.args >= n ==> ({ " + let() + " let o = f.sig.outputs as int; final(env).rt.stack@ =~= below(s, a) + top(s, n as int) + node_out(f.node, top(s, a)) })"],
       hints=["let s = old(env).rt.stack@; let a = ops@[0].sig.args as int;",
              "if a >= n { assert(below(s, 0) =~= s); assert(top(s, 0) =~= Seq::<Value>::empty()); }"],
       sig=RTSIGN, desc="off_n F : copies of the top n values are kept beneath F's results (content shown for n <= a; height for all n)")

# =====================================================================
# run.rs stack helpers whose bodies Verus accepts: here the helper contract the shim ASSUMES (the
# `external_body` twin above) is PROVED on the real body, unbounded — the E3 obligations on the same
# helpers stay as a cross-check.  The extracted fn is renamed `<name>_real`.
# =====================================================================
R3ERR = [("R3", r"self\.error\(verif_msg\(\)\)", "self.error(verif_msg())", "error text dropped")]
U(id="C07.e2.helper.require_height", props=["C07", "C02", "C11"], kind="fn", file=RUN, impl=UIUAIMPL, impl_name="Uiua", fn="require_height", name="require_height_real",
  target="impl Uiua", ret="r",
  ensures=["r.is_ok() <==> self.rt.stack@.len() >= n", "r.is_ok() ==> r.unwrap() == self.rt.stack@.len() - n"],
  desc="require_height(n): Ok(len - n) iff len >= n (proved on the real body, any depth)")
U(id="C07.e2.helper.push", props=["C07", "C02"], kind="fn", file=RUN, impl=UIUAIMPL, impl_name="Uiua", fn="push", name="push_real",
  target="impl Uiua", rewrites=R6_INTO, head_rewrites=[("R6", r"<V: Into<Value>>", "", "generic conversion parameter -> shim type"), ("R6", r"val: V", "val: Value", "generic conversion parameter -> shim type")],
  ensures=["final(self).rt.stack@ == old(self).rt.stack@.push(val)", "final(self).rt.under_stack@ == old(self).rt.under_stack@"],
  desc="push appends exactly one value (proved on the real body)")
U(id="C07.e2.helper.push_under", props=["C04", "C02"], kind="fn", file=RUN, impl=UIUAIMPL, impl_name="Uiua", fn="push_under", name="push_under_real",
  target="impl Uiua",
  ensures=["final(self).rt.under_stack@ == old(self).rt.under_stack@.push(val)", "final(self).rt.stack@ == old(self).rt.stack@"],
  desc="push_under appends exactly one value to the context stack (proved on the real body)")
U(id="C07.e2.helper.copy_nth", props=["C07", "C02"], kind="fn", file=RUN, impl=UIUAIMPL, impl_name="Uiua", fn="copy_nth", name="copy_nth_real",
  target="impl Uiua", ret="r", requires=["n < usize::MAX"],
  rewrites=[("R6", r"self\.require_height\(", "self.require_height_real(", "callee is the proved twin")],
  ensures=["r.is_ok() <==> self.rt.stack@.len() > n", "r.is_ok() ==> r.unwrap() == self.rt.stack@[self.rt.stack@.len() - 1 - n]"],
  desc="copy_nth(n): a copy of the value n below the top (proved on the real body)")
U(id="C07.e2.helper.stack_height", props=["C07", "C02"], kind="fn", file=RUN, impl=UIUAIMPL, impl_name="Uiua", fn="stack_height", name="stack_height_real",
  target="impl Uiua", ret="r", ensures=["r == self.rt.stack@.len()"], desc="stack_height is the length of the stack")
U(id="C07.e2.helper.pop_n", props=["C07", "C02"], kind="fn", file=RUN, impl=UIUAIMPL, impl_name="Uiua", fn="pop_n", name="pop_n_real",
  target="impl Uiua", ret="r",
  rewrites=[("R6", r"self\.require_height\(", "self.require_height_real(", "callee is the proved twin")],
  ensures=["r.is_ok() <==> old(self).rt.stack@.len() >= n",
           "r.is_ok() ==> r.unwrap()@ =~= top(old(self).rt.stack@, n as int) && final(self).rt.stack@ =~= below(old(self).rt.stack@, n as int)",
           "r.is_err() ==> final(self).rt.stack@ == old(self).rt.stack@", "final(self).rt.under_stack@ == old(self).rt.under_stack@"],
  desc="pop_n(n): returns the top n in push order and removes exactly them (proved on the real body, any depth)")
U(id="C11.e2.helper.truncate_stack", props=["C11", "C04"], kind="fn", file=RUN, impl=UIUAIMPL, impl_name="Uiua", fn="truncate_stack", name="truncate_stack_real",
  target="impl Uiua", ret="r",
  ensures=["final(self).rt.stack@ =~= old(self).rt.stack@.subrange(0, if size <= old(self).rt.stack@.len() { size as int } else { old(self).rt.stack@.len() as int })",
           "final(self).rt.under_stack@ == old(self).rt.under_stack@"],
  desc="truncate_stack(k): keeps exactly the first min(k, len) values (proved on the real body)")
U(id="C04.e2.helper.under_stack_height", props=["C04"], kind="fn", file=RUN, impl=UIUAIMPL, impl_name="Uiua", fn="under_stack_height", name="under_stack_height_real",
  target="impl Uiua", ret="r", ensures=["r == self.rt.under_stack@.len()"], desc="under_stack_height is the length of the context stack")
