"""C02 base case for the helper-shaped leaves of run_prim_func (src/run_prim.rs):
each arm, cut verbatim, is normalised by rewrite R8 (everything a primitive
*computes* becomes an opaque total-or-error function; only stack traffic is
kept) and must move exactly (prim.args(), prim.outputs()) values, the numbers
being read from the real definitions table by tools/primtable on every run."""
import os
import re
import shutil

import extract
from core import REPO, SCRATCH, VERIF, run

HELPERS = {
    # helper -> (values popped, values pushed)
    "monadic_ref": (1, 1), "monadic_env": (1, 1), "monadic_ref_env": (1, 1), "monadic_mut": (1, 1), "monadic_mut_env": (1, 1),
    "dyadic_rr": (2, 1), "dyadic_rr_env": (2, 1), "dyadic_oo_env": (2, 1), "dyadic_ro_env": (2, 1),
}


class NotLeafShaped(Exception):
    pass


_MAPERR = re.compile(r"\s*\.map_err\(\|e\| env\.error\(e\)\)")
_POP = re.compile(r"&?env\s*\.pop\(([^()]*)\)\?")
_CTRL = re.compile(r"\benv\s*\.(push|exec|call|pop_n|push_all|truncate_stack|remove_n|insert_stack)\b|\|[\w ,]*\||\bif\b|\bfor\b|\bwhile\b|\bloop\b|\breturn\b|\bmatch\b|#\[cfg")


def normalise(body, is_block, lenient=False):
    """R8.  Returns (normalised text, list of rewrites).  Raises NotLeafShaped.
    `lenient` (system functions, src/sys/mod.rs) additionally accepts a statement that pops one value and
    immediately converts it (`env.pop(1)?.as_string(env, "…")?`): it becomes the pop followed by an opaque
    fallible step; `.map_err(|e| env.error(e))` (error conversion, reads `env` only) is dropped first."""
    log = []
    text = body.strip()
    if not is_block:
        # one-expression arm
        m = re.fullmatch(r"env\.(\w+)\((.*)\)\?", text, re.S)
        if m and m.group(1) in HELPERS:
            log.append(f"R8: argument of {m.group(1)} ({m.group(2).strip()[:40]!r}) -> opaque total-or-error function")
            return f"        env.{m.group(1)}(opaque_fn())?;\n", log
        m = re.fullmatch(r"env\.push\((.*)\)", text, re.S)
        if m:
            log.append(f"R8: pushed expression {m.group(1).strip()[:40]!r} -> opaque value")
            return "        env.push(opaque_value());\n", log
        raise NotLeafShaped("expression arm is not a helper call / push")
    out = []
    # statement-wise (statements end with ';' at nesting level 0)
    stmts = []
    i = 0
    s = body
    while i < len(s):
        j = extract.scan(s, i, ";")
        st = s[i:j].strip()
        if st:
            stmts.append(st)
        i = j + 1
    popped = set()
    for st in stmts:
        st1 = re.sub(r"^\s*//[^\n]*\n", "", st, flags=re.M).strip()
        if not st1:
            continue
        if lenient:
            st2 = _MAPERR.sub("", st1)
            st2 = re.sub(r"\(env\.rt\.backend\)", "env.rt.backend", st2)
            st2 = re.sub(r"\s*\n\s*\.", ".", st2)
            if st2 != st1:
                log.append("R8: `.map_err(|e| env.error(e))` dropped (error conversion)")
                st1 = st2
            mp = re.fullmatch(r"let (?:mut )?(\w+) = env\.pop\([^()]*\)\?", st1)
            if mp:
                popped.add(mp.group(1))
                out.append(f"let {mp.group(1)} = env.pop(1)?;")
                continue
            mpush = re.fullmatch(r"env\.push\((\w+)(\.clone\(\))?\)", st1)
            if mpush and mpush.group(1) not in popped:
                log.append(f"R8: pushed expression {mpush.group(1)!r} -> opaque value")
                out.append("env.push(opaque_value());")
                continue
            if not _POP.search(st1) and neutral(st1):
                fallible = bool(re.search(r"\?|\breturn Err\(", st1))
                log.append(f"R8: stack-neutral statement {st1[:50]!r} -> opaque " + ("fallible step" if fallible else "step"))
                out.append("opaque_unit()?;" if fallible else "opaque_unit_infallible();")
                continue
            pops = _POP.findall(st1)
            if len(pops) == 1 and not re.fullmatch(r"(let (mut )?\w+ = )?env\.pop\([^()]*\)\?", st1):
                rest = _POP.sub("POPPED", st1)
                if _CTRL.search(rest):
                    raise NotLeafShaped(f"pop-and-convert statement with control flow / stack traffic: {st1[:50]!r}")
                for meth in calls_with_env(rest):
                    if takes_mut_env(meth):
                        raise NotLeafShaped(f"callee `{meth}` takes `&mut Uiua`")
                out.append("env.pop(1)?;")
                if "?" in rest:
                    out.append("opaque_unit()?;")
                log.append(f"R8: {st1[:60]!r} -> pop followed by an opaque " + ("fallible step" if "?" in rest else "conversion"))
                continue
        if re.fullmatch(r"(let (mut )?\w+ = )?env\.pop\([^()]*\)\?", st1):
            out.append(st1 + ";")
        elif re.fullmatch(r"env\.require_height\(\d+\)\?", st1):
            out.append(st1 + ";")
        elif re.fullmatch(r"env\.push\((\w+)(\.clone\(\))?\)", st1):
            out.append(st1 + ";")
        elif re.fullmatch(r"env\.push\(.*\)", st1, re.S):
            inner = st1[len("env.push("):-1]
            if "env.pop" in inner or "env.push" in inner or "|" in inner:
                raise NotLeafShaped("push of a complex expression")
            if inner.rstrip().endswith("?"):
                log.append(f"R8: pushed fallible expression {inner.strip()[:40]!r} -> opaque result")
                out.append("env.push(opaque_result()?);")
            else:
                log.append(f"R8: pushed expression {inner.strip()[:40]!r} -> opaque value")
                out.append("env.push(opaque_value());")
        elif re.fullmatch(r"env\.(\w+)\((.*)\)\?", st1, re.S) and re.fullmatch(r"env\.(\w+)\((.*)\)\?", st1, re.S).group(1) in HELPERS:
            h = re.fullmatch(r"env\.(\w+)\((.*)\)\?", st1, re.S).group(1)
            log.append(f"R8: argument of {h} -> opaque total-or-error function")
            out.append(f"env.{h}(opaque_fn())?;")
        else:
            m = re.fullmatch(r"let (mut )?(\w+) = (.*)", st1, re.S)
            rhs = m.group(3) if m else st1
            if re.search(r"\benv\.(pop|push|exec|call)\b|\|[\w ,]*\||\bif\b|\bfor\b|\bwhile\b|\breturn\b|\bmatch\b", rhs):
                raise NotLeafShaped(f"statement not of the form pop/call/push: {st1[:50]!r}")
            if not re.search(r"\b[a-z_]\w*\.\w+\(", rhs):
                raise NotLeafShaped(f"statement is not a method call on a value: {st1[:50]!r}")
            if re.search(r"\benv\.\w+\(", rhs):
                raise NotLeafShaped(f"calls a method of the interpreter itself (may use the stack): {st1[:50]!r}")
            for meth in (calls_with_env(rhs) if lenient else re.findall(r"\.(\w+)\(", rhs)):
                if re.search(r"\(.*\benv\b", rhs, re.S) and takes_mut_env(meth):
                    raise NotLeafShaped(f"callee `{meth}` takes `&mut Uiua`")
            fallible = rhs.rstrip().endswith("?")
            log.append(f"R8: {rhs.strip()[:50]!r} -> opaque " + ("result" if fallible else "value"))
            if m:
                out.append(f"let {m.group(1) or ''}{m.group(2)} = " + ("opaque_result()?;" if fallible else "opaque_value();"))
            else:
                out.append("opaque_unit()?;" if fallible else "opaque_unit_infallible();")
    return "".join("        " + o + "\n" for o in out), log


_ENV_READONLY = {"error", "span", "error_with_span", "ctx", "stack_height", "scalar_fill", "scalar_unfill"}


def neutral(st):
    """A statement that cannot move values on the interpreter's stacks: it mentions no stack operation of `env`,
    every `env.<method>(` it calls is a read-only one, no callee that is handed `env` takes `&mut Uiua`, it does not
    return early with success and contains no conditional compilation."""
    if re.search(r"#\[cfg|\breturn Ok\b|\breturn;|\bcontinue\b|\bbreak\b", st):
        return False
    for m in re.finditer(r"\benv\s*\.\s*(\w+)\s*\(", st):
        if m.group(1) not in _ENV_READONLY:
            return False
    if re.search(r"&mut\s+\*?env\b|\benv\.rt\.(stack|under_stack|call_stack|fill_stack|unfill_stack|fill_boundary_stack|local_stack)\b", st):
        return False
    for meth in calls_with_env(st):
        if meth not in _ENV_READONLY and takes_mut_env(meth):
            return False
    return True


def calls_with_env(text):
    """names of the functions / methods called in `text` whose argument list mentions `env`"""
    out = []
    for m in re.finditer(r"\b([a-z_]\w*)\(", text):
        out.append((m.group(1), m.end() - 1))
    res = []
    for name, i in out:
        depth = 0
        j = i
        while j < len(text):
            if text[j] == "(":
                depth += 1
            elif text[j] == ")":
                depth -= 1
                if depth == 0:
                    break
            j += 1
        if re.search(r"\benv\b", text[i:j + 1]):
            res.append(name)
    return res


_SIGS = None


def takes_mut_env(method):
    """True if some definition `fn <method>(…)` in src/ has a `&mut Uiua` parameter (or none is found)."""
    global _SIGS
    if _SIGS is None:
        _SIGS = {}
        for d, _, fs in os.walk(os.path.join(REPO, "src")):
            for f in fs:
                if f.endswith(".rs"):
                    t = open(os.path.join(d, f), errors="replace").read()
                    for m in re.finditer(r"\bfn\s+(\w+)\s*(?:<[^>]*>)?\s*\(([^{;]*?)\)\s*(?:->[^{;]*)?[{;]", t, re.S):
                        _SIGS.setdefault(m.group(1), []).append(m.group(2))
    sigs = _SIGS.get(method)
    if not sigs:
        return True
    return any(re.search(r"&mut\s+(Uiua|Self)\b.*\benv\b|\benv:\s*&mut\s+Uiua", sg, re.S) for sg in sigs)


_TABLE = None


def primtable(log=None):
    """{variant: (args, outputs)} from the real definitions table."""
    global _TABLE
    if _TABLE is not None:
        return _TABLE
    d = os.path.join(SCRATCH, "primtable")
    os.makedirs(os.path.join(d, "src"), exist_ok=True)
    shutil.copy(os.path.join(VERIF, "tools", "primtable", "src", "main.rs"), os.path.join(d, "src", "main.rs"))
    with open(os.path.join(d, "Cargo.toml"), "w") as f:
        f.write('[package]\nname = "primtable"\nversion = "0.0.0"\nedition = "2024"\n[dependencies]\n'
                f'uiua_parser = {{ path = "{os.path.join(REPO, "parser")}" }}\n[workspace]\n')
    shutil.copy(os.path.join(REPO, "Cargo.lock"), os.path.join(d, "Cargo.lock"))
    rc, out, dt = run(["cargo", "run", "--offline", "-q"], cwd=d, timeout=1200,
                      env={"CARGO_TARGET_DIR": os.path.join(SCRATCH, "primtable-target")})
    tab = {}
    for l in out.split("\n"):
        m = re.fullmatch(r"(\w+) (-?\d+) (-?\d+) (-?\d+)", l.strip())
        if m:
            tab[m.group(1)] = (int(m.group(2)), int(m.group(3)), int(m.group(4)))
    if len(tab) < 100:
        raise RuntimeError("primtable driver failed: " + out[-800:])
    _TABLE = tab
    return tab


_ITABLE = None


def impl_unit_variants():
    """names of the payload-free variants listed in the impl_primitive! invocation (src/impl_prim.rs); used only to
    decide which variants the table driver can name, the numbers come from the compiled code"""
    t = open(os.path.join(REPO, "src", "impl_prim.rs")).read()
    i = t.index("impl_primitive!(")
    return re.findall(r"(?m)^\s*\(\s*\d+(?:\(\d+\))?(?:\[\d+\])?\s*,\s*(\w+)\s*(?:,\s*\w+)?\s*\),?\s*$", t[i:])


def impltable(log=None):
    """{Variant: (args, outputs, modifier_args)} of `uiua::ImplPrimitive`, printed by a driver linked against REPO"""
    global _ITABLE
    if _ITABLE is not None:
        return _ITABLE
    names = impl_unit_variants()
    d = os.path.join(SCRATCH, "impltable")
    os.makedirs(os.path.join(d, "src"), exist_ok=True)
    body = "".join(f'    p("{n}", ImplPrimitive::{n});\n' for n in names)
    with open(os.path.join(d, "src", "main.rs"), "w") as f:
        f.write("//! GENERATED by lib/leafarms.py: prints `Variant args outputs modifier_args` of uiua::ImplPrimitive\n"
                "use uiua::ImplPrimitive;\nfn p(n: &str, x: ImplPrimitive) {\n"
                "    let g = |v: Option<usize>| v.map(|x| x as i64).unwrap_or(-1);\n"
                '    println!("{} {} {} {}", n, g(x.args()), g(x.outputs()), g(x.modifier_args()));\n}\n'
                "fn main() {\n" + body + "}\n")
    with open(os.path.join(d, "Cargo.toml"), "w") as f:
        f.write('[package]\nname = "impltable"\nversion = "0.0.0"\nedition = "2024"\n[dependencies]\n'
                f'uiua = {{ path = "{REPO}", default-features = false }}\n[workspace]\n')
    shutil.copy(os.path.join(REPO, "Cargo.lock"), os.path.join(d, "Cargo.lock"))
    rc, out, dt = run(["cargo", "run", "--offline", "-q"], cwd=d, timeout=2400,
                      env={"CARGO_TARGET_DIR": os.path.join(SCRATCH, "impltable-target")})
    tab = {}
    for l in out.split("\n"):
        m = re.fullmatch(r"(\w+) (-?\d+) (-?\d+) (-?\d+)", l.strip())
        if m:
            tab[m.group(1)] = (int(m.group(2)), int(m.group(3)), int(m.group(4)))
    if len(tab) < 50:
        raise RuntimeError("impltable driver failed: " + out[-1500:])
    _ITABLE = tab
    return tab


def impl_arm_names():
    p = os.path.join(VERIF, "contracts", "verus", "leaf_impl_arms.txt")
    return [l.strip() for l in open(p) if l.strip() and not l.startswith("#")]


def discover_impl():
    """(maintenance) arms of ImplPrimitive::run (src/run_prim.rs) that are leaf-shaped and name a payload-free variant"""
    src = open(os.path.join(REPO, "src", "run_prim.rs")).read()
    info = extract.find_fn_in_impls(src, "run", r"^impl ImplPrimitive \{")
    body = src[info["body_start"]:info["body_end"]]
    names = re.findall(r"(?m)^            ImplPrimitive::(\w+) => ", body)
    units = set(impl_unit_variants())
    ok, bad = [], []
    for n in names:
        if n not in units:
            bad.append((n, "not a payload-free variant of the table"))
            continue
        try:
            abody, is_block, span = extract.find_arm(src, r"ImplPrimitive::" + n, info["body_start"], info["body_end"])
            normalise(abody, is_block, lenient=True)
            ok.append(n)
        except (NotLeafShaped, extract.AnchorLost) as ex:
            bad.append((n, str(ex)))
    return ok, bad


def arm_names():
    p = os.path.join(VERIF, "contracts", "verus", "leaf_arms.txt")
    return [l.strip() for l in open(p) if l.strip() and not l.startswith("#")]


def sys_arm_names():
    p = os.path.join(VERIF, "contracts", "verus", "leaf_sys_arms.txt")
    return [l.strip() for l in open(p) if l.strip() and not l.startswith("#")]


def discover_sys():
    """(maintenance) list the arms of run_sys_op (src/sys/mod.rs) that are leaf-shaped on the current tree"""
    src = open(os.path.join(REPO, "src", "sys", "mod.rs")).read()
    info = extract.find_fn(src, "run_sys_op")
    body = src[info["body_start"]:info["body_end"]]
    names = re.findall(r"(?m)^        SysOp::(\w+) => ", body)
    ok, bad = [], []
    for n in names:
        try:
            abody, is_block, span = extract.find_arm(src, r"SysOp::" + n, info["body_start"], info["body_end"])
            normalise(abody, is_block, lenient=True)
            ok.append(n)
        except (NotLeafShaped, extract.AnchorLost) as ex:
            bad.append((n, str(ex)))
    return ok, bad


def discover():
    """(maintenance) list the arms of run_prim_func that are leaf-shaped on the current tree"""
    src = open(os.path.join(REPO, "src", "run_prim.rs")).read()
    info = extract.find_fn(src, "run_prim_func")
    body = src[info["body_start"]:info["body_end"]]
    names = re.findall(r"(?m)^        Primitive::(\w+) => ", body)
    ok, bad = [], []
    for n in names:
        try:
            abody, is_block, span = extract.find_arm(src, r"Primitive::" + n, info["body_start"], info["body_end"])
            normalise(abody, is_block, lenient=True)
            ok.append(n)
        except (NotLeafShaped, extract.AnchorLost) as ex:
            bad.append((n, str(ex)))
    return ok, bad


if __name__ == "__main__" and len(__import__("sys").argv) > 1 and __import__("sys").argv[1] == "impl":
    ok, bad = discover_impl()
    print(len(ok), "leaf-shaped;", len(bad), "not:")
    for n, why in bad:
        print("   ", n, "-", why)
    open(os.path.join(VERIF, "contracts", "verus", "leaf_impl_arms.txt"), "w").write(
        "# arms of ImplPrimitive::run (src/run_prim.rs) under the C02 leaf contract; generated once by `lib/leafarms.py impl`, then fixed\n" + "\n".join(ok) + "\n")
elif __name__ == "__main__" and len(__import__("sys").argv) > 1 and __import__("sys").argv[1] == "sys":
    ok, bad = discover_sys()
    print(len(ok), "leaf-shaped;", len(bad), "not:")
    for n, why in bad:
        print("   ", n, "-", why)
    open(os.path.join(VERIF, "contracts", "verus", "leaf_sys_arms.txt"), "w").write(
        "# arms of run_sys_op (src/sys/mod.rs) under the C02 leaf contract; generated once by `lib/leafarms.py sys`, then fixed\n" + "\n".join(ok) + "\n")
elif __name__ == "__main__":
    ok, bad = discover()
    print(len(ok), "leaf-shaped;", len(bad), "not:")
    for n, why in bad:
        print("   ", n, "-", why)
    open(os.path.join(VERIF, "contracts", "verus", "leaf_arms.txt"), "w").write(
        "# arms of run_prim_func (src/run_prim.rs) under the C02 leaf contract; generated once by lib/leafarms.py, then fixed\n" + "\n".join(ok) + "\n")
