"""Which properties are claimed, at which level, and the static part of their
trusted base.  (The dynamic part — obligations, rewrites, sources — is emitted
by the engines on every run.)"""

NOT_APPLICABLE = {
    "C01": "optimizer/pre-eval rewrites manipulate Node trees with an interpreter env; no function within reach of Kani (ICE/EcoVec blow-up) or Verus (iterator/closure/float style) carries 'rewrites preserve meaning'; needs differential execution, a different family",
    "C10": "format.rs is a String/char_indices/grapheme builder over the AST; Verus has no str reasoning, Kani cannot run String/unicode-segmentation symbolically; 'means the same program' needs the compiler as oracle",
    "C12": "whole-history property over thread_local hash-keyed caches of Node trees; not expressible as a function contract within reach",
    "C13": "concurrency + liveness: Kani has no threads, Verus would need the code rewritten onto its permission types; termination under all schedules is not a function contract",
    "C14": "name resolution, inlining, macro expansion and module paths are compiler passes over Node/ast; program equivalence needs program semantics",
    "C18": "every codec is inline in Value-level methods taking env or delegates to libraries (flate2, csv, serde_json, std::str); no carrier function within reach",
}

CLAIMED = {
    # id -> (evidence level, design ref)
    "C02": ("proof", "DESIGN.md §4 C02"),
    "C03": ("proof", "DESIGN.md §4 C03"),
    "C04": ("proof", "DESIGN.md §4 C04"),
    "C05": ("proof", "DESIGN.md §4 C05"),
    "C06": ("proof", "DESIGN.md §4 C06"),
    "C07": ("proof", "DESIGN.md §4 C07"),
    "C08": ("proof", "DESIGN.md §4 C08"),
    "C09": ("other", "DESIGN.md §4 C09"),
    "C11": ("proof", "DESIGN.md §4 C11"),
    "C15": ("proof", "DESIGN.md §4 C15"),
    "C16": ("model_checking", "DESIGN.md §4 C16"),
    "C17": ("proof", "DESIGN.md §4 C17"),
    "C19": ("proof", "DESIGN.md §4 C19"),
    "C20": ("proof", "DESIGN.md §4 C20"),
}

TRUSTED_COMMON = [
    "tools: Kani 0.68 / CBMC 6.11 / CaDiCaL; Verus 0.2026.09.13 / Z3; rustc nightly (Kani) and 1.98.1 (Verus) instead of the repo's stable toolchain: same source, different compiler",
    "the python driver (extractor, registry, result parsing) is trusted to paste text faithfully; sources[].sha256 and the printed extraction let a reader diff the verified text against /repo",
]
TRUSTED_E1 = [
    "E1: `--no-default-features --features ga,opt` build of uiua (features only add I/O back ends)",
    "E1: CBMC's IEEE float model for + - * / compare convert; no libm (kernels ending in libm calls are left out or stubbed)",
    "E1: kani::any::<char>() ranges over valid scalar values only; unwinding bounds and enumerated shapes as listed per obligation",
    "E1: float-kernel harnesses run with --no-overflow-checks (CBMC's NaN/inf 'overflow' checks flag IEEE-legal results)",
]
TRUSTED_E2 = [
    "E2: the Verus shim's external_body contracts (listed under coverage.assumed_contracts): IH for operand execution (success and failure clauses), helper contracts of run.rs (each also an E3 obligation), get_ops_N/get_args_N arity check, vstd Vec",
    "E2: rewrites R1-R8 of the extractor as listed under coverage.extraction",
    "E2: structural induction over Node and the base case for irregular leaves are not mechanised",
    "E2: spec-level `int` is mathematical; executable arithmetic is machine arithmetic (Verus checks overflow)",
]
TRUSTED_E3 = [
    "E3: parametricity in Value (token type substituted; extracted text only moves/clones/drops values)",
    "E3: EcoVec model Option<Rc<Vec<T>>> (is_unique <=> strong_count==1, make_mut clones when shared: documented ecow behaviour, not verified)",
    "E3: hostile-operand model of exec (IH-runtime); hash_start as an arbitrary fixed function; enumerated concrete sizes as listed per obligation",
    "E3 arrmeth: std HashMap/HashSet keyed by ArrayCmpSlice modelled as association lists under the key's == (sound iff Hash agrees with Eq: obligations C15.e1.*.eq_implies_hash_eq); rayon par_* run sequentially (stable); MapKeys an opaque token with Array::map / MapKeys::normalized assumed inverse; the interpreter reduced to 'a numeric scalar fill is present or absent'; ArrayFlags a hand model of the bitflags! type (same bit values)",
    "E3 frames: Uiua::exec scripted (pops/pushes per script, may fail, may nest through the real call / fill-scope functions); Runtime's container and system types replaced by stand-ins that the code under contract never inspects; memo table as a fixed-capacity association list",
    "E3 lexargs / lexsplit: the lexer's character source reduced to a script over the character classes the extracted code distinguishes",
]

MANIFEST_TEXT = {
    "C02": {"technique": "Verus contracts on extracted checker/interpreter arms + Kani function contracts on Signature",
            "text": "Inductive step per node kind: if operands obey their signatures then the composite obeys the signature the checker computes, for all operand signatures and all stack depths (Verus, unbounded, modulo listed IH assumptions); base case for 262 leaf-shaped arms of run_prim_func / run_sys_op / ImplPrimitive::run against the real definitions tables; Signature algebra complete under Kani; stack helpers, call frames and the memo arm bounded under Kani.",
            "note": "IH for operand execution assumed; structural induction over Node not mechanised; iterating modifiers' run-time halves and irregular leaves undecided"},
    "C03": {"technique": "Kani contracts on Signature::inverse/anti and on scalar inverse kernel pairs; Verus on SigNode::un_inverse",
            "text": "Mirror/dual signatures for all signatures; scalar inverse pairs exact on the integer domain (complete, loop-free full-domain Kani harnesses).",
            "note": "pattern tables, matcher, algebra.rs and array-level inverse halves are undecided"},
    "C04": {"technique": "Kani on extracted context-stack instructions; Verus on exec_clean_stack",
            "text": "Context-stack instructions and rollback leave no residue: contents bounded (Kani, concrete sizes), heights unbounded (Verus).",
            "note": "does not decide that the ~90 do/undo templates are balanced or that undo primitives restore the data"},
    "C05": {"technique": "Kani contracts on ArrayFlags, sort kernels, mark helpers, extracted array methods with the crate's own validator",
            "text": "Flag algebra complete; sort kernels sorted+permutation+pointer-safe on bounded sizes; mark helpers only clear / permute marks truthfully; reverse / transpose / deduplicate / first / last leave well-formed, truthfully marked arrays on enumerated shapes.",
            "note": "env-level primitives that propagate marks are undecided"},
    "C06": {"technique": "Kani contracts: byte kernel == float kernel on the converted argument; copy-on-write contracts on extracted cowslice.rs",
            "text": "Every scalar kernel variant (byte/bool) equals the float kernel on converted arguments for all inputs (complete); CowSlice mutators never touch another handle's view and ignore window/uniqueness (bounded sizes); the mark shortcuts of the index / grade / classify family change no result (bounded shapes).",
            "note": "Value-level byte/float dispatch and fast-path selection undecided; EcoVec modelled"},
    "C07": {"technique": "Verus content-level contracts on extracted routing arms of run_prim_mod",
            "text": "Argument-routing modifiers equal their documented definitions for all operand signatures and stacks (Verus, unbounded, modulo IH); helper contracts bounded-checked under Kani.",
            "note": "the iterating half (rows/each/table/reduce/scan/fold/repeat/group/partition) is undecided"},
    "C08": {"technique": "Kani contracts: kernel == spec function written from the documentation",
            "text": "Scalar semantics complete for all inputs; shape agreement and index arithmetic bounded by rank; reverse, transpose, first, last, rise/fall permutations, classify, deduplicate, unique, occurrences against reference definitions on enumerated shapes.",
            "note": "primitives that use env for more than errors and fills (take/drop/select/…) undecided"},
    "C09": {"technique": "Kani implicit panic/overflow/bounds/pointer checks on every function under contract",
            "text": "Carrier-level panic/UB freedom only: no panic, overflow, out-of-bounds or invalid pointer use inside the functions under contract (incl. the unsafe sort kernels, the lexer's span / column / subscript arithmetic, rotate amounts).",
            "note": "says nothing about whole inputs through lexer/parser/compiler/interpreter"},
    "C11": {"technique": "Kani on extracted try_/exec_clean_stack / call frames / fill scopes / run_asm reset with a hostile operand model; Verus on scoped-state helpers",
            "text": "try hands the handler exactly the original arguments and context; call depth, fill, unfill and boundary stacks restored on Ok and Err through nested scopes; a failed run resets every scoped structure and keeps the session configuration (heights unbounded under Verus; contents bounded under Kani).",
            "note": "IH-runtime assumed for operands; run_compiler's compiler rollback undecided"},
    "C15": {"technique": "Kani contracts on ArrayCmp/array_hash impls, ArrayCmpSlice, Array eq/cmp/hash",
            "text": "Equivalence/total-order/hash laws complete at element level for f64,u8,char,Complex and mixed u8/f64; rows and arrays on enumerated shapes (bounded).",
            "note": "rise/fall/classify themselves (rayon/SipHash) undecided; Boxed left out"},
    "C16": {"technique": "Kani one-step inductive contracts on extracted map probe loops and row operations",
            "text": "Probe loops and row operations (reverse, rotate, drop, take) of the key table against an association-list view: one-step induction over a full representation and numbering invariant, bounded capacity.",
            "note": "join / couple / grow and the Value-level callers undecided; hash_start abstracted as arbitrary fixed function"},
    "C17": {"technique": "Kani full-domain contract on F64Rep conversions; Kani on the extracted Array <-> ArrayRep conversions",
            "text": "Special floats survive their serialised representation for all f64 bit patterns (complete); array -> representation -> array keeps shape, elements, label and map keys and comes back truthfully marked (bounded shapes).",
            "note": "most of the property (text format, NodeRep, serde itself) is undecided"},
    "C19": {"technique": "Kani contracts on CodeSpan/Loc algebra and extracted Lexer::update_loc",
            "text": "Span algebra complete over all Loc values; location stepping for any char; split-identifier positions bounded.",
            "note": "lexer main loop, parser merges, LSP spans undecided"},
    "C20": {"technique": "Kani over the full purity enums and every SysBackend default method",
            "text": "No system function is pure; deny-by-default backend returns Err / inert values for every default method; purity gate at leaves.",
            "note": "that every host effect goes through the trait, and comptime backend choice, undecided"},
}

C09_QUICK_PREFIXES = [
    "C05.e1.sort.insertion_sort", "C05.e1.sort.heap_sort",   # unsafe ptr::swap_nonoverlapping blocks of the sort kernels (partition: thorough)
    "C19.",                    # span arithmetic, update_loc, split-identifier columns (F6)
    "C08.e1.rotate.",          # rotate amount arithmetic (F10)
    "C08.e1.char_arith.", "C06.e1.add.byte_char", "C06.e1.sub.byte_char",   # char::from_u32 / casts
    "C02.e1.signature.", "C02.e2.sig.", "C02.e2.stack.", "C03.e1.signature.",  # u16 / i32 truncation and overflow
    "C07.e3.helper.rotate.3", "C11.e3.helper.remove_n.3", "C07.e3.helper.dup_values.3", "C07.e3.helper.copy_n_down.3",  # slice index / rotate preconditions
    "C16.e3.map.remove_impl", "C16.e3.map.get", "C16.e3.map.set_tombstones", "C16.e3.map.rotate",  # probe loops: index arithmetic, `*len -= 1`, `-by`
    "C17.e1.", "C17.e3.load.", "C17.e3.rep.roundtrip.list3.", "C08.e3.transpose", "C08.e3.derive_new_shape", "C08.e3.pervade_dim", "C08.e3.reverse", "C08.e3.grade.rise_indices.list3", "C09.", "C11.e3.frames.reset", "C11.e3.frames.call_leaf.1_2",
]
