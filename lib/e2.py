"""E2: Verus on mechanically extracted text.

On every run the functions / match arms listed in contracts/verus/units.py are
cut byte-for-byte out of /repo's working tree (lib/extract.py), a closed list of
syntactic rewrites (R1-R8, DESIGN.md §2) is applied and recorded, contracts
(requires / ensures / invariants / ghost hints) are spliced in, and the result is
pasted after contracts/verus/shim.rs into ONE file that `verus` checks.  Every
emitted fn is one named obligation."""
import importlib.util
import json
import os
import re
import time

import extract
from core import FAIL, PASS, REPO, SCRATCH, UNDECIDED, VERIF, Lock, Obligation, Result, run, sha256_file

E2DIR = os.path.join(SCRATCH, "e2")
SHIM = os.path.join(VERIF, "contracts", "verus", "shim.rs")


def _units():
    p = os.path.join(VERIF, "contracts", "verus", "units.py")
    spec = importlib.util.spec_from_file_location("verus_units", p)
    m = importlib.util.module_from_spec(spec)
    spec.loader.exec_module(m)
    units = list(m.UNITS)
    import leafarms
    for n in leafarms.arm_names():
        units.append({"id": f"C02.e2.leaf.{n}", "props": ["C02"], "kind": "leaf_arm", "file": "src/run_prim.rs", "fn": "run_prim_func",
                      "arm": r"Primitive::" + n, "prim": n, "lenient": True, "target": "",
                      "desc": f"leaf {n}: the run-time arm moves exactly ({n}.args(), {n}.outputs()) values (numbers read from the real definitions table); nothing beneath is touched, also on failure"})
    for n in leafarms.impl_arm_names():
        units.append({"id": f"C02.e2.implleaf.{n}", "props": ["C02"], "kind": "leaf_arm", "file": "src/run_prim.rs", "fn": "run",
                      "impl": r"^impl ImplPrimitive \{", "arm": r"ImplPrimitive::" + n, "prim": n, "table": "impl", "lenient": True, "target": "",
                      "desc": f"implementation primitive {n}: the run-time arm of ImplPrimitive::run moves exactly ({n}.args(), {n}.outputs()) values (numbers printed by a driver linked against the repository); nothing beneath is touched, also on failure"})
    for n in leafarms.sys_arm_names():
        units.append({"id": f"C02.e2.sysleaf.{n}", "props": ["C02"], "kind": "leaf_arm", "file": "src/sys/mod.rs", "fn": "run_sys_op",
                      "arm": r"SysOp::" + n, "prim": "Sys_" + n, "lenient": True, "target": "",
                      "desc": f"system function {n}: the run-time arm of run_sys_op moves exactly the (args, outputs) values its entry in the definitions table declares; nothing beneath is touched, also on failure"})
    return units


def registry():
    obls = []
    for u in _units():
        obls.append(Obligation(u["id"], u["props"], "e2-verus-extract", u.get("level", "unbounded"),
                               u.get("tier", "quick"), u.get("expect", "pass"),
                               anchor=_anchor(u), desc=u.get("desc", ""), budget=u.get("budget", 120)))
    return obls


def _anchor(u):
    if u["kind"] in ("lemma", "canary"):
        return "contracts/verus (no repo code)"
    a = f"{u['file']}::{u.get('impl_name', '')}::{u['fn']}"
    if u["kind"] in ("arm", "leaf_arm"):
        a += f" arm `{u['arm']}`"
    if u.get("sub"):
        a += f" [{u['sub']}]"
    return a


# ------------------------------------------------------------------ rewrites
RW = [
    # (id, regex, replacement, description)
    ("R2", r"let \[(mut )?(\w+)\] = (get_\w+)\(([^;]*?)\)\?;", r"let \1\2 = \3_1(\4)?;", "slice pattern (1) -> arity-checked shim fn"),
    ("R2", r"let \[(mut )?(\w+), (mut )?(\w+)\] = (get_\w+)\(([^;]*?)\)\?;", r"let (\1\2, \3\4) = \5_2(\6)?;", "slice pattern (2) -> arity-checked shim fn"),
    ("R2", r"let \[(\w+), (\w+), (\w+)\] = (get_\w+)\(([^;]*?)\)\?;", r"let (\1, \2, \3) = \4_3(\5)?;", "slice pattern (3) -> arity-checked shim fn"),
    ("R4", r"(?m)^\s*debug_assert(?:_eq|_ne)?!\([^;]*\);\n", "", "debug-only assertion dropped"),
    ("R4", r"(?m)^\s*#\[(?:inline(?:\(always\))?|track_caller|allow\([^\]]*\)|must_use)\]\n", "", "attribute dropped"),
    ("R4", r"(?m)^\s*///[^\n]*\n", "", "doc comment dropped"),
    ("R3", r'format!\((?:[^()]|\((?:[^()]|\([^()]*\))*\))*\)', "verif_msg()", "error text dropped"),
]


def apply_rewrites(text, extra=()):
    log = []
    for rid, pat, rep, why in list(RW) + list(extra):
        new, n = re.subn(pat, rep, text)
        if n:
            log.append({"rewrite": rid, "count": n, "what": why, "pattern": pat})
            text = new
    return text, log


UNSUPPORTED = [
    (r"let \[", "slice pattern not covered by R2"),
    (r"\.iter\(\)|\.into_iter\(\)|\.drain\(|\.extend\(", "iterator adapter"),
    (r"\|\s*\w+\s*\|", "closure"),
]


def check_supported(text, allow=()):
    for pat, why in UNSUPPORTED:
        if why in allow:
            continue
        if re.search(pat, text):
            return why
    return None


# ------------------------------------------------------------------ generation
class Gen:
    def __init__(self):
        self.blocks = {}   # target -> list of text
        self.order = []
        self.lines = []
        self.unit_ranges = {}  # id -> (first_line, last_line)
        self.report = []   # per unit extraction report
        self.errors = {}   # id -> reason (anchor lost / unsupported)
        self.sources = {}


def _read(gen, rel):
    p = os.path.join(REPO, rel)
    if rel not in gen.sources:
        gen.sources[rel] = {"file": rel, "sha256": sha256_file(p)}
    return open(p).read()


def _spec_clauses(u):
    s = ""
    if u.get("requires"):
        s += "        requires\n" + "".join(f"            {c},\n" for c in u["requires"])
    if u.get("ensures"):
        s += "        ensures\n" + "".join(f"            {c},\n" for c in u["ensures"])
    return s


def _emit_unit(gen, u):
    uid = u["id"]
    kind = u["kind"]
    rep = {"id": uid, "kind": kind, "rewrites": []}
    try:
        if kind in ("lemma", "canary"):
            text = u["text"].rstrip() + "\n"
            rep["source"] = "contracts/verus/units.py (no repo code)"
        else:
            src = _read(gen, u["file"])
            if u.get("impl"):
                info = extract.find_fn_in_impls(src, u["fn"], u["impl"])
            else:
                info = extract.find_fn(src, u["fn"], 0, len(src))
            if u.get("inner_fn"):
                info = extract.find_fn(src, u["inner_fn"], info["body_start"], info["body_end"])
            sig, body = extract.fn_parts(src, info)
            rep["source"] = f"{u['file']}:{extract.line_of(src, info['fn_kw'])}-{extract.line_of(src, info['body_end'])}"
            if kind == "leaf_arm":
                import leafarms
                abody, is_block, span = extract.find_arm(src, u["arm"], info["body_start"], info["body_end"])
                rep["source"] = f"{u['file']}:{extract.line_of(src, span[0])}-{extract.line_of(src, span[1])} (arm of {u['fn']})"
                rep["verbatim_sha256"] = __import__("hashlib").sha256(abody.encode()).hexdigest()
                try:
                    norm, rlog = leafarms.normalise(abody, is_block, lenient=bool(u.get("lenient")))
                except leafarms.NotLeafShaped as ex:
                    raise extract.AnchorLost(f"arm is no longer leaf-shaped: {ex}")
                rep["rewrites"] = [{"rewrite": "R8", "what": x} for x in rlog]
                tab = leafarms.impltable() if u.get("table") == "impl" else leafarms.primtable()
                if u["prim"] not in tab or tab[u["prim"]][0] < 0 or tab[u["prim"]][1] < 0:
                    raise extract.AnchorLost(f"primitive {u['prim']} has no fixed args/outputs in the definitions table")
                A, O, _ = tab[u["prim"]]
                rep["declared"] = {"args": A, "outputs": O}
                text = (f"    fn leaf_{u['prim']}(env: &mut Uiua) -> (r: UiuaResult)\n        ensures\n"
                        f"            leaf_effect(old(env).rt.stack@, final(env).rt.stack@, r.is_ok(), {A}, {O}),\n"
                        f"            final(env).rt.under_stack@ == old(env).rt.under_stack@,\n    {{\n{norm}        Ok(())\n    }}\n")
                target = ""
                gen.blocks.setdefault(target, []).append((uid, text))
                if target not in gen.order:
                    gen.order.append(target)
                gen.report.append(rep)
                return
            if kind == "fn":
                raw = body
                head = u.get("sig") or sig
                tail = ""
            elif kind == "arm":
                abody, is_block, span = extract.find_arm(src, u["arm"], info["body_start"], info["body_end"])
                if u.get("sub_if"):
                    # the `if <cond> { … }` block inside the arm
                    m = re.search(r"if\s+" + u["sub_if"] + r"\s*\{", abody)
                    if not m:
                        raise extract.AnchorLost(f"sub-block `if {u['sub_if']}` not found in arm")
                    b = m.end() - 1
                    e = extract.match_brace(abody, b)
                    abody = abody[b + 1:e - 1]
                rep["source"] = f"{u['file']}:{extract.line_of(src, span[0])}-{extract.line_of(src, span[1])} (arm of {u['fn']})"
                raw = abody if is_block else "        " + abody.strip() + ";\n"
                if not is_block and u.get("expr_arm_is_value"):
                    raw = "        " + abody.strip() + "\n"
                head = u["sig"]
                tail = u.get("tail", "Ok(())")
            else:
                raise ValueError(kind)
            rep["verbatim_sha256"] = __import__("hashlib").sha256(raw.encode()).hexdigest()
            rep["verbatim_lines"] = raw.count("\n")
            new, log = apply_rewrites(raw, u.get("rewrites", ()))
            rep["rewrites"] = log
            why = check_supported(new, u.get("allow", ()))
            if why:
                raise extract.AnchorLost(f"unsupported construct after rewrites: {why}")
            # loop invariants (R7): splice `invariant … decreases …` before the body of loop #k
            for k, inv in (u.get("loops") or {}).items():
                loops = list(re.finditer(r"(?m)^(\s*)(for\s[^{]*|while\s[^{]*|loop\s*)\{", new))
                if k >= len(loops):
                    raise extract.AnchorLost(f"loop #{k} not found")
                m = loops[k]
                ins = m.group(1) + m.group(2).rstrip() + "\n" + "".join(m.group(1) + "    " + l + "\n" for l in inv) + m.group(1) + "{"
                new = new[:m.start()] + ins + new[m.end():]
            for rid, pat, rpl, why in u.get("head_rewrites", ()):
                head2, n = re.subn(pat, rpl, head)
                if n:
                    rep["rewrites"].append({"rewrite": rid, "count": n, "what": why + " (fn header)", "pattern": pat})
                    head = head2
            if u.get("ret"):
                # name the return value: the last `-> T` becomes `-> (r: T)`
                head = head.strip()
                k = head.rfind("->")
                head = head[:k] + f"-> ({u['ret']}: {head[k + 2:].strip()})"
            head = re.sub(r"\bpub\(crate\)\s+", "pub ", head)
            head = re.sub(r"\bconst fn\b", "fn", head)
            hint = ""
            if u.get("hints"):
                hint = "        proof {\n" + "".join(f"            {h}\n" for h in u["hints"]) + "        }\n"
            pre_hint = ""
            if u.get("pre_hints"):
                pre_hint = "        proof {\n" + "".join(f"            {h}\n" for h in u["pre_hints"]) + "        }\n"
            text = f"    {head.strip()}\n{_spec_clauses(u)}    {{\n{pre_hint}{new.rstrip()}\n"
            if kind == "arm":
                text += hint
                if tail:
                    text += f"        {tail}\n"
            text += "    }\n"
            if u.get("name"):
                text = re.sub(r"\bfn\s+" + re.escape(info["name"]) + r"\b", "fn " + u["name"], text, count=1)
        target = u.get("target", "")
        gen.blocks.setdefault(target, []).append((uid, text))
        if target not in gen.order:
            gen.order.append(target)
    except extract.AnchorLost as ex:
        gen.errors[uid] = str(ex)
        rep["error"] = str(ex)
    gen.report.append(rep)


def generate(units):
    gen = Gen()
    for u in units:
        _emit_unit(gen, u)
    out = ["use vstd::prelude::*;", "verus! {", ""]
    out += open(SHIM).read().split("\n")
    out.append("// ======================= extracted code under proof =======================")
    for target in gen.order:
        if target:
            out.append(f"{target} {{")
        for uid, text in gen.blocks[target]:
            first = len(out) + 1
            out.append(f"    // ---- obligation {uid}")
            out += text.rstrip("\n").split("\n")
            gen.unit_ranges[uid] = (first, len(out))
        if target:
            out.append("}")
    out += ["", "} // verus!", "fn main() {}", ""]
    gen.text = "\n".join(out)
    return gen


def assumed_contracts():
    """The assumption inventory: every `external_body` item of the shim with its full contract text."""
    t = open(SHIM).read()
    res = []
    for m in re.finditer(r"#\[verifier::external_body\]\s*\n", t):
        i = m.end()
        # the item header + spec clauses run up to the line that opens the body
        j = t.find("\n    {", i)
        k = t.find("\n{", i)
        cands = [x for x in (j, k) if x >= 0]
        end = min(cands) if cands else i + 200
        hdr_end = t.find("{\n", i)
        if hdr_end >= 0 and hdr_end < end:
            end = hdr_end
        txt = " ".join(l.strip() for l in t[i:end].strip().split("\n"))
        # preceding doc comment says what kind of assumption it is
        doc = ""
        ls = t.rfind("\n", 0, m.start() - 1)
        prev = t[t.rfind("\n", 0, ls) + 1:m.start()].strip() if ls > 0 else ""
        if "ASSUMED" in prev:
            doc = prev.lstrip("/ ").strip()
        res.append((txt[:700] + (" // " + doc[:200] if doc else "")))
    return res


def run_obligations(obls, log):
    units = {u["id"]: u for u in _units()}
    allunits = list(units.values())
    info = {"cmds": [], "extraction": None}
    os.makedirs(E2DIR, exist_ok=True)
    with Lock("e2"):
        gen = generate(allunits)
        path = os.path.join(E2DIR, f"gen-{os.getpid()}.rs")
        with open(path, "w") as f:
            f.write(gen.text)
        keep = os.path.join(E2DIR, "gen-last.rs")
        with open(keep, "w") as f:
            f.write(gen.text)
        cmd = ["verus", path, "--output-json", "--time", "--multiple-errors", "50", "--rlimit", "30"]
        info["cmds"].append("verus <generated file> --output-json --time --multiple-errors 50 --rlimit 30")
        log(f"[e2] verus on {len(allunits)} units ({len(gen.errors)} extraction problems)")
        t0 = time.time()
        rc, out, dt = run(cmd, cwd=E2DIR, timeout=1800)
        try:
            os.remove(path)
        except OSError:
            pass
    info["extraction"] = {"units": gen.report, "rewrite_rules": [{"id": r[0], "pattern": r[1], "what": r[3]} for r in RW]}
    info["assumed_contracts"] = assumed_contracts()
    prep = type("P", (), {})()
    prep.sources = list(gen.sources.values())
    # split stdout JSON from stderr diagnostics (we merged them): JSON starts at first line that is '{'
    jtxt = None
    i = out.find("\n{\n")
    if out.startswith("{"):
        i = -1
    if i >= -1:
        depth = 0
        start = i + 1 if i >= 0 else 0
        for k in range(start, len(out)):
            if out[k] == "{":
                depth += 1
            elif out[k] == "}":
                depth -= 1
                if depth == 0:
                    jtxt = out[start:k + 1]
                    break
    data = None
    if jtxt:
        try:
            data = json.loads(jtxt)
        except Exception:
            data = None
    diag = out if jtxt is None else out.replace(jtxt, "")
    results = []
    if data is None:
        for o in obls:
            results.append(Result(o, UNDECIDED, detail="verus produced no JSON result", text=out[-3000:]))
        return results, prep, info
    vr = data.get("verification-results", {})
    total_smt = data.get("times-ms", {}).get("total-verify", 0) / 1000.0
    # collect error spans
    errs = []  # (line, message)
    cur = None
    for l in diag.split("\n"):
        m = re.match(r"^(error|warning)(?:\[\w+\])?: (.*)$", l)
        if m:
            cur = [m.group(1), m.group(2), None]
            if m.group(1) == "error":
                errs.append(cur)
            continue
        m = re.match(r"^\s*--> .*?:(\d+):\d+", l)
        if m and cur is not None and cur[2] is None:
            cur[2] = int(m.group(1))
    fatal = None
    if vr.get("encountered-vir-error") or ("verified" not in vr):
        # the file did not get to verification: everything undecided, with the first error
        first = next((e for e in errs if not e[1].startswith("aborting")), None)
        fatal = f"verus front-end error: {first[1] if first else 'unknown'}" + (f" (generated line {first[2]})" if first and first[2] else "")
    per_unit_err = {}
    stray = []
    for kind, msg, line in errs:
        if msg.startswith("aborting due to"):
            continue
        hit = None
        if line is not None:
            for uid, (a, b) in gen.unit_ranges.items():
                if a <= line <= b:
                    hit = uid
                    break
        if hit:
            per_unit_err.setdefault(hit, []).append(f"{msg} (generated line {line})")
        else:
            stray.append(f"{msg} (line {line})")
    n_units = max(1, len(allunits))
    for o in obls:
        if o.id in gen.errors:
            results.append(Result(o, UNDECIDED, detail="extraction: " + gen.errors[o.id]))
            continue
        if fatal:
            mine = per_unit_err.get(o.id)
            results.append(Result(o, UNDECIDED, detail=fatal + (" ; in this unit: " + mine[0] if mine else ""), text=diag[-3000:]))
            continue
        if stray:
            results.append(Result(o, UNDECIDED, detail="verus error outside any unit: " + stray[0], text=diag[-3000:]))
            continue
        e = per_unit_err.get(o.id)
        if e:
            tool_limit = [x for x in e if "rlimit" in x or "resource limit" in x.lower() or "not supported" in x or "unsupported" in x.lower()]
            if tool_limit and len(tool_limit) == len(e):
                results.append(Result(o, UNDECIDED, total_smt / n_units, detail="verus: " + tool_limit[0], backend="verus/z3"))
            else:
                a, b = gen.unit_ranges[o.id]
                results.append(Result(o, FAIL, total_smt / n_units, backend="verus/z3", failed_checks=e,
                                      text="\n".join(gen.text.split("\n")[a - 1:b]) + "\n\n" + _diag_for(diag, a, b)))
        else:
            results.append(Result(o, PASS, total_smt / n_units, backend="verus/z3"))
    info["verus_summary"] = vr
    return results, prep, info


def _diag_for(diag, a, b):
    """the diagnostics whose primary span lies in [a,b]"""
    chunks = re.split(r"\n(?=error|warning)", diag)
    keep = []
    for c in chunks:
        m = re.search(r"--> .*?:(\d+):\d+", c)
        if m and a <= int(m.group(1)) <= b:
            keep.append(c)
    return "\n".join(keep)[-6000:]


if __name__ == "__main__":
    import sys
    g = generate(_units())
    os.makedirs(E2DIR, exist_ok=True)
    p = os.path.join(E2DIR, "gen-manual.rs")
    open(p, "w").write(g.text)
    print(p, "errors:", g.errors)


def warm(log):
    """pre-build the primitive-table driver (parser crate) and let verus start once"""
    import leafarms
    try:
        leafarms.primtable()
        log("[warm] primtable ok")
    except Exception as ex:  # noqa: BLE001
        log(f"[warm] primtable: {ex!r}")
