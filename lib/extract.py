"""Mechanical extractor: cuts functions, nested functions, match arms and
closure bodies byte-for-byte out of Rust source files (no parsing beyond a
lexer-level brace matcher that understands strings, chars, lifetimes and
comments)."""
import re


class AnchorLost(Exception):
    pass


def _skip_string(s, i):
    # s[i] == '"'
    i += 1
    while i < len(s):
        c = s[i]
        if c == "\\":
            i += 2
            continue
        if c == '"':
            return i + 1
        i += 1
    return i


def _skip_raw_string(s, i):
    # s[i] == 'r' followed by #*"
    j = i + 1
    n = 0
    while j < len(s) and s[j] == "#":
        n += 1
        j += 1
    if j >= len(s) or s[j] != '"':
        return None
    end = s.find('"' + "#" * n, j + 1)
    if end < 0:
        return len(s)
    return end + 1 + n


def _skip_char_or_lifetime(s, i):
    # s[i] == "'"
    # char literal: 'x' or '\n' or '\u{..}' ; lifetime: 'a (no closing quote soon)
    if i + 1 < len(s) and s[i + 1] == "\\":
        j = s.find("'", i + 2)
        return j + 1 if j >= 0 else i + 1
    if i + 2 < len(s) and s[i + 2] == "'":
        return i + 3
    # multi-byte char literal e.g. '∞'
    m = re.match(r"'[^'\\\n]'", s[i:i + 8])
    if m:
        return i + m.end()
    return i + 1  # lifetime


def scan(s, i, stop_chars):
    """Advance from i until one of stop_chars is found at nesting level 0
    (w.r.t. (), [], {}), skipping strings/comments. Returns index of the stop char."""
    depth = 0
    n = len(s)
    while i < n:
        c = s[i]
        if c == "/" and s.startswith("//", i):
            j = s.find("\n", i)
            i = n if j < 0 else j
            continue
        if c == "/" and s.startswith("/*", i):
            j = s.find("*/", i)
            i = n if j < 0 else j + 2
            continue
        if c == '"':
            i = _skip_string(s, i)
            continue
        if c == "r" and i + 1 < n and s[i + 1] in '#"' and not (i > 0 and (s[i - 1].isalnum() or s[i - 1] == "_")):
            j = _skip_raw_string(s, i)
            if j is not None:
                i = j
                continue
        if c == "b" and i + 1 < n and s[i + 1] == '"' and not (i > 0 and (s[i - 1].isalnum() or s[i - 1] == "_")):
            i = _skip_string(s, i + 1)
            continue
        if c == "'":
            i = _skip_char_or_lifetime(s, i)
            continue
        if depth == 0 and c in stop_chars:
            return i
        if c in "([{":
            depth += 1
        elif c in ")]}":
            depth -= 1
            if depth < 0:
                return i
        i += 1
    return n


def match_brace(s, i):
    """s[i] is an opening bracket; returns index just past its matching close."""
    assert s[i] in "([{", (s[i], s[max(0, i - 30):i + 30])
    j = scan(s, i + 1, "")
    # scan returns index of the unmatched closer (depth < 0)
    return j + 1


def find_impl_block(src, impl_header_re):
    """Returns (start, end) of the body (inside braces) of the impl whose header matches."""
    ms = list(re.finditer(impl_header_re, src, re.M))
    if len(ms) != 1:
        raise AnchorLost(f"impl header {impl_header_re!r} matches {len(ms)} times")
    m = ms[0]
    b = src.index("{", m.end() - 1)
    e = match_brace(src, b)
    return b + 1, e - 1


def find_impl_blocks(src, impl_header_re):
    """All impl blocks whose header matches: list of (start, end) of the body."""
    res = []
    for m in re.finditer(impl_header_re, src, re.M):
        b = src.index("{", m.end() - 1)
        e = match_brace(src, b)
        res.append((b + 1, e - 1))
    if not res:
        raise AnchorLost(f"impl header {impl_header_re!r} not found")
    return res


def find_fn_in_impls(src, name, impl_header_re):
    hits = []
    for (a, b) in find_impl_blocks(src, impl_header_re):
        try:
            hits.append(find_fn(src, name, a, b))
        except AnchorLost as ex:
            if "0 definitions" not in str(ex):
                raise
    if len(hits) != 1:
        raise AnchorLost(f"fn {name}: {len(hits)} definitions in impl blocks {impl_header_re!r}")
    return hits[0]


def find_fn(src, name, start=0, end=None):
    """Find `fn name` (item) within src[start:end]. Returns dict with
    item_start (incl. attributes/docs/visibility), sig_start, body_start ('{'), body_end (past '}')."""
    end = len(src) if end is None else end
    pat = re.compile(r"\bfn\s+" + re.escape(name) + r"\b")
    ms = [m for m in pat.finditer(src, start, end)]
    # drop matches inside comments/strings: cheap filter on line prefix
    ms = [m for m in ms if "//" not in src[src.rfind("\n", 0, m.start()) + 1:m.start()]]
    if len(ms) != 1:
        raise AnchorLost(f"fn {name}: {len(ms)} definitions found in range")
    m = ms[0]
    # signature runs to the body '{' at nesting level 0 (where-clauses etc. included)
    b = scan(src, m.end(), "{;")
    if b >= len(src) or src[b] != "{":
        raise AnchorLost(f"fn {name}: no body")
    e = match_brace(src, b)
    # item start: back over pub/attrs/doc comments on preceding lines
    ls = src.rfind("\n", 0, m.start()) + 1
    sig_start = ls + (len(src[ls:m.start()]) - len(src[ls:m.start()].lstrip()))
    item_start = ls
    while True:
        pl = src.rfind("\n", 0, item_start - 1) + 1
        line = src[pl:item_start].strip()
        if item_start > 0 and (line.startswith("#[") or line.startswith("///") or line.startswith("//")):
            item_start = pl
        else:
            break
    return {"item_start": item_start, "sig_start": sig_start, "fn_kw": m.start(), "body_start": b,
            "body_end": e, "name": name}


def fn_parts(src, info):
    """(signature text up to '{' exclusive, body text inside braces)"""
    sig = src[info["sig_start"]:info["body_start"]].rstrip()
    body = src[info["body_start"] + 1:info["body_end"] - 1]
    return sig, body


def find_arm(src, pattern, start=0, end=None):
    """Find a match arm whose pattern text (regex, must be followed by `=>`) occurs
    exactly once in src[start:end]. Returns (body_text, is_block, span)."""
    end = len(src) if end is None else end
    # the wanted alternative may stand alone or among other `|` alternatives on the same line
    pat = re.compile(r"(?m)^[ \t]*(?:[^=\n]*?\|\s*)?" + pattern + r"(?:\s*\|[^=\n]*?)?\s*=>\s*")
    ms = list(pat.finditer(src, start, end))
    if len(ms) != 1:
        raise AnchorLost(f"arm {pattern!r}: {len(ms)} matches")
    m = ms[0]
    i = m.end()
    if src[i] == "{":
        e = match_brace(src, i)
        return src[i + 1:e - 1], True, (m.start(), e)
    # expression arm: up to the ',' at level 0
    e = scan(src, i, ",")
    return src[i:e], False, (m.start(), e)


def line_of(src, idx):
    return src.count("\n", 0, idx) + 1
