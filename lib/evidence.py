"""Evidence writer: /verif/evidence/<id>.json, rewritten on every run from what
the engines actually did."""
import json
import os

import core
import props
from core import VERIF


def _obl_view(r):
    o = r.obl
    d = {"id": o.id, "engine": o.engine, "level": o.level, "anchor": o.anchor, "status": r.status,
         "backend": r.backend, "solver_s": round(r.solver_s, 3)}
    if o.harness:
        d["harness"] = o.harness
    if o.bound:
        d["bound"] = o.bound
    if o.desc:
        d["clause"] = o.desc
    if r.detail:
        d["detail"] = r.detail
    if r.failed_checks:
        d["failed_checks"] = r.failed_checks[:5]
    return d


def write(pid, tier, seed, mine, results, discharged, bounded_ok, guards_ok, known_hits, violations,
          undecided, engine_info, wall):
    level, dref = props.CLAIMED[pid]
    engines_used = sorted({o.engine for o in mine})
    proof_obls = [o for o in mine if o.expect == "pass" and o.level in ("complete", "unbounded")]
    known_ids = {r.obl.id for r in known_hits}
    proof_obls_claimed = [o for o in proof_obls if o.id not in known_ids]
    bounded_obls = [o for o in mine if o.expect == "pass" and o.level == "bounded"]
    fns = sorted({o.anchor for o in mine if o.expect == "pass"})
    trusted = list(props.TRUSTED_COMMON)
    if "e1-kani-inplace" in engines_used:
        trusted += props.TRUSTED_E1
    if "e2-verus-extract" in engines_used:
        trusted += props.TRUSTED_E2
    if "e3-kani-extract" in engines_used:
        trusted += props.TRUSTED_E3
    solver_s = sum(r.solver_s for r in results)
    samples = []
    for r in (discharged + bounded_ok)[:3] + known_hits[:1]:
        samples.append(_obl_view(r))
    if not samples:
        samples = [_obl_view(r) for r in results[:3]]
    cmds = []
    extraction = {}
    sources = []
    assumed = []
    for name, info in engine_info.items():
        cmds += info.get("cmds", [])
        prep = info.get("prep")
        if prep is not None:
            sources += getattr(prep, "sources", [])
            if getattr(prep, "splices", None):
                extraction.setdefault("function_contract_splices", []).extend(prep.splices)
        if info.get("extraction"):
            extraction[name] = info["extraction"]
        assumed += info.get("assumed_contracts", [])
    cov = {
        "obligations": len(proof_obls_claimed),
        "discharged": len(discharged),
        "checker_cmd": " ;; ".join(cmds) if cmds else "none",
        "trusted_base": trusted,
        "bounded_obligations": len(bounded_obls),
        "bounded_passed": len(bounded_ok),
        "bounds": sorted({o.bound for o in bounded_obls if o.bound}),
        "vacuity_guards": len([o for o in mine if o.expect == "fail"]),
        "vacuity_guards_failed_as_required": len(guards_ok),
        "known_finding_obligations": [_obl_view(r) for r in known_hits],
        "undecided": [_obl_view(r) for r in undecided],
        "violations": [_obl_view(r) for r in violations],
        "functions_under_contract": fns,
        "engines": engines_used,
        "solver_s": round(solver_s, 2),
        "obligation_list": [_obl_view(r) for r in results if r.obl.expect == "pass"],
        "sources": sources,
        "extraction": extraction,
        "assumed_contracts": assumed,
        "assumption_scan": core.scan_assumptions(),
        "evaluations": len(results),
        "distinct_nontrivial": len({r.obl.id for r in discharged + bounded_ok}),
        "rule": "one evaluation = one named proof obligation run by a verifier on text taken from /repo's working tree; non-trivial = an expected-to-hold obligation that the verifier discharged (vacuity guards and canaries are not counted)",
        "samples": samples,
        "explanation": "carrier-level obligations only; see DESIGN.md §4 for what the property statement says beyond them and is left undecided",
        "engine_wall_s": {k: v.get("wall_s") for k, v in engine_info.items()},
    }
    ev = {
        "property_id": pid,
        "tier": tier,
        "seed": seed,
        "level": level,
        "coverage": cov,
        "assumptions": trusted + [
            "complete/unbounded obligations are counted under obligations/discharged; bounded ones only under bounded_*",
            "what is decided is the slice of the property carried by the functions under contract (DESIGN.md §4 %s); the rest of the statement is undecided" % pid,
        ],
        "wall_s": round(wall, 1),
        "violations": len(violations),
    }
    os.makedirs(os.path.join(VERIF, "evidence"), exist_ok=True)
    with open(os.path.join(VERIF, "evidence", pid + ".json"), "w") as f:
        json.dump(ev, f, indent=1, default=str)
