"""Shared pieces of the verification driver: obligations, results, scratch
handling, known findings, evidence writing."""
import fcntl
import hashlib
import json
import os
import re
import shlex
import subprocess
import sys
import time

VERIF = os.path.dirname(os.path.dirname(os.path.abspath(__file__)))
REPO = os.environ.get("VERIF_REPO", "/repo")
SCRATCH = os.environ.get("VERIF_SCRATCH", "/var/tmp/uiua-verif")
NCPU = int(os.environ.get("VERIF_JOBS", str(os.cpu_count() or 8)))

PASS, FAIL, UNDECIDED = "pass", "fail", "undecided"


class Obligation:
    """One named proof obligation.  `expect` is 'pass' for real obligations and
    'fail' for vacuity guards (canaries / reachability of preconditions)."""

    def __init__(self, oid, props, engine, level, tier="quick", expect="pass",
                 anchor="", desc="", bound="", flags=(), budget=300, harness="",
                 crate="", group=""):
        self.id = oid
        self.props = list(props)
        self.engine = engine
        self.level = level  # complete | unbounded | bounded
        self.tier = tier
        self.expect = expect
        self.anchor = anchor
        self.desc = desc
        self.bound = bound
        self.flags = tuple(flags)
        self.budget = budget
        self.harness = harness
        self.crate = crate
        self.group = group

    def __repr__(self):
        return f"<Obl {self.id}>"


class Result:
    def __init__(self, obl, status, solver_s=0.0, detail="", backend="", failed_checks=None,
                 text=""):
        self.obl = obl
        self.status = status  # pass / fail / undecided
        self.solver_s = solver_s
        self.detail = detail
        self.backend = backend
        self.failed_checks = failed_checks or []
        self.text = text


def parse_annots(text):
    """Parse `//@ key=value ...` annotation lines followed by a harness fn."""
    out = []
    lines = text.split("\n")
    for i, l in enumerate(lines):
        m = re.match(r"\s*//@\s+(.*)$", l)
        if not m:
            continue
        kv = {}
        for tok in shlex.split(m.group(1)):
            if "=" in tok:
                k, v = tok.split("=", 1)
                kv[k] = v
        # find the fn name that follows
        fn = None
        for j in range(i + 1, min(i + 12, len(lines))):
            mm = re.search(r"\bfn\s+([A-Za-z0-9_]+)", lines[j])
            if mm:
                fn = mm.group(1)
                break
        kv["_fn"] = fn
        kv["_line"] = i + 1
        out.append(kv)
    return out


def sha256_file(p):
    h = hashlib.sha256()
    with open(p, "rb") as f:
        h.update(f.read())
    return h.hexdigest()


class Lock:
    def __init__(self, name):
        os.makedirs(SCRATCH, exist_ok=True)
        self.path = os.path.join(SCRATCH, name + ".lock")

    def __enter__(self):
        self.f = open(self.path, "w")
        fcntl.flock(self.f, fcntl.LOCK_EX)
        return self

    def __exit__(self, *a):
        fcntl.flock(self.f, fcntl.LOCK_UN)
        self.f.close()


def run(cmd, cwd=None, env=None, timeout=None, mem_gb=None):
    e = dict(os.environ)
    e["CARGO_NET_OFFLINE"] = "true"
    if env:
        e.update(env)

    def pre():
        os.setsid()
        if mem_gb:
            import resource
            lim = int(mem_gb * (1 << 30))
            resource.setrlimit(resource.RLIMIT_AS, (lim, lim))

    t0 = time.time()
    p = subprocess.Popen(cmd, cwd=cwd, env=e, stdout=subprocess.PIPE, stderr=subprocess.STDOUT,
                         preexec_fn=pre, text=True, errors="replace")
    try:
        out, _ = p.communicate(timeout=timeout)
        rc = p.returncode
    except subprocess.TimeoutExpired:
        import signal
        try:
            os.killpg(p.pid, signal.SIGKILL)
        except Exception:
            pass
        out, _ = p.communicate()
        rc = -9
        out = (out or "") + "\n[driver] TIMEOUT\n"
    return rc, out, time.time() - t0


def sync_repo(dst):
    """Copy /repo's *working tree* (not HEAD) to dst, keeping mtimes so cargo's
    fingerprints stay valid for unchanged files."""
    os.makedirs(dst, exist_ok=True)
    rc, out, _ = run(["rsync", "-a", "--delete", "--exclude", "/target", "--exclude", ".git",
                      REPO.rstrip("/") + "/", dst.rstrip("/") + "/"])
    if rc != 0:
        raise RuntimeError("rsync failed: " + out)


def write_if_changed(path, text):
    try:
        with open(path) as f:
            if f.read() == text:
                return False
    except FileNotFoundError:
        pass
    with open(path, "w") as f:
        f.write(text)
    return True


# ---------------------------------------------------------------- findings

def load_known_findings():
    """known_findings.txt lines:
         finding: property=C15 obligation=<id> <text>
         fixed: property=C16 <commit> <text>
    Only `finding:` lines suppress anything, and only the named obligation."""
    p = os.path.join(VERIF, "known_findings.txt")
    res = {}
    if not os.path.exists(p):
        return res
    for l in open(p):
        l = l.strip()
        if not l.startswith("finding:"):
            continue
        m = re.search(r"property=(\S+)\s+obligation=(\S+)\s*(.*)$", l)
        if m:
            res[m.group(2)] = (m.group(1), m.group(3))
    return res


def scan_assumptions():
    """Mechanical scan of contracts/ for proof-weakening constructs."""
    pats = ["assume(", "admit(", "external_body", "assume_specification", "kani::assume",
            "kani::stub", "external_fn_specification", "#[verifier::external"]
    counts = {}
    root = os.path.join(VERIF, "contracts")
    for d, _, fs in os.walk(root):
        for f in fs:
            p = os.path.join(d, f)
            try:
                t = open(p, errors="replace").read()
            except Exception:
                continue
            for pat in pats:
                c = t.count(pat)
                if c:
                    counts.setdefault(pat, {})[os.path.relpath(p, VERIF)] = c
    return counts
