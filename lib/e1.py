"""E1: Kani *in place*.  The working tree of /repo is copied to a scratch
directory, the harness modules under contracts/inplace/<crate>/ are appended to
the real source files (as `#[cfg(kani)] mod … { use super::*; }`), function
contracts are spliced above the real `fn`s, and `cargo kani` is run on the real
crate.  Nothing is extracted or rewritten: the functions verified are the
functions rustc compiles for users."""
import glob
import json
import os
import re
import shutil
import time

from core import (FAIL, NCPU, PASS, REPO, SCRATCH, UNDECIDED, VERIF, Lock, Obligation, Result,
                  parse_annots, run, sync_repo, write_if_changed)

CRATES = {
    # crate -> (dir relative to repo root, cargo args)
    "uiua": ("", ["-p", "uiua", "--lib", "--no-default-features", "--features", "ga,opt"]),
    "uiua_parser": ("parser", ["-p", "uiua_parser", "--lib", "--features", "multivector"]),
}
E1DIR = os.path.join(SCRATCH, "e1")


def harness_files(crate):
    return sorted(glob.glob(os.path.join(VERIF, "contracts", "inplace", crate, "*__*.rs")))


def target_rel(crate, hf):
    rel = os.path.basename(hf).replace("__", "/")
    return os.path.join(CRATES[crate][0], rel)


def mod_path(rel_in_crate):
    # src/array.rs -> array ; src/algorithm/mod.rs -> algorithm ; src/lib.rs -> ""
    p = rel_in_crate
    assert p.startswith("src/")
    p = p[4:-3]
    parts = p.split("/")
    if parts[-1] in ("mod", "lib"):
        parts = parts[:-1]
    return "::".join(parts)


def registry():
    """All E1 obligations, read from the //@ annotations of the harness files."""
    obls = []
    for crate in CRATES:
        for hf in harness_files(crate):
            text = open(hf).read()
            mm = re.search(r"^(?:pub(?:\(crate\))? )?mod\s+(\w+)", text, re.M)
            modname = mm.group(1)
            rel = os.path.basename(hf).replace("__", "/")
            mp = mod_path(rel)
            for kv in parse_annots(text):
                if not kv.get("_fn"):
                    raise RuntimeError(f"{hf}:{kv['_line']}: annotation without fn")
                full = "::".join(x for x in (mp, modname, kv["_fn"]) if x)
                flags = tuple(f for f in kv.get("flags", "").split(",") if f)
                obls.append(Obligation(
                    kv["id"], kv["props"].split(","), "e1-kani-inplace",
                    kv.get("level", "complete"), kv.get("tier", "quick"),
                    kv.get("expect", "pass"),
                    anchor=kv.get("anchor", target_rel(crate, hf)),
                    desc=kv.get("desc", ""), bound=kv.get("bound", ""), flags=flags,
                    budget=int(kv.get("budget", "300")), harness=full, crate=crate,
                    group=kv.get("group", "")))
    ids = [o.id for o in obls]
    dup = {i for i in ids if ids.count(i) > 1}
    if dup:
        raise RuntimeError("duplicate obligation ids: %s" % sorted(dup))
    return obls


class Prep:
    def __init__(self):
        self.sources = []
        self.errors = []
        self.splices = []


def prepare(crates):
    """rsync the working tree and append harness modules. Returns Prep."""
    src = os.path.join(E1DIR, "src")
    sync_repo(src)
    prep = Prep()
    for crate in crates:
        for hf in harness_files(crate):
            rel = target_rel(crate, hf)
            dst = os.path.join(src, rel)
            if not os.path.exists(dst):
                prep.errors.append(f"anchor lost: {rel} does not exist")
                continue
            orig = open(dst).read()
            prep.sources.append({"file": rel, "sha256": __import__("hashlib").sha256(orig.encode()).hexdigest(),
                                 "lines": orig.count("\n")})
            new = orig
            # function-contract splices for this file
            sp = os.path.join(VERIF, "contracts", "inplace", crate, "splices.json")
            if os.path.exists(sp):
                for s in json.load(open(sp)):
                    if s["file"] != os.path.basename(hf).replace("__", "/"):
                        continue
                    pat = re.compile(s["before"], re.M)
                    ms = list(pat.finditer(new))
                    if len(ms) != 1:
                        prep.errors.append(f"anchor lost: splice {s['before']!r} matches {len(ms)} times in {rel}")
                        continue
                    m = ms[0]
                    ls = new.rfind("\n", 0, m.start()) + 1
                    indent = re.match(r"\s*", new[ls:]).group(0)
                    ins = "".join(indent + a + "\n" for a in s["attrs"])
                    new = new[:ls] + ins + new[ls:]
                    prep.splices.append({"file": rel, "fn": s["before"], "attrs": s["attrs"]})
            new = new + "\n" + open(hf).read()
            write_if_changed(dst, new)
    return prep


def _kani_cmd(crate, harnesses, flags, timeout_s, outjson, jobs, extra=()):
    cmd = ["cargo", "kani"] + CRATES[crate][1] + [
        "--target-dir", os.path.join(E1DIR, "target"),
        "-Z", "function-contracts", "-Z", "stubbing", "-Z", "unstable-options",
        "--exact", "-j", str(jobs), "--output-format", "terse",
        "--export-json", outjson, "--harness-timeout", f"{int(timeout_s)}s"]
    if "nofloat" in flags:
        cmd.append("--no-overflow-checks")
    if "quant" in flags:
        cmd += ["-Z", "quantifiers"]
    cmd += list(extra)
    for h in harnesses:
        cmd += ["--harness", h]
    return cmd


def run_obligations(obls, log):
    """Run the given E1 obligations. Returns (results, prep, info)."""
    results = []
    info = {"cmds": [], "build_s": 0.0}
    if not obls:
        return results, None, info
    crates = sorted({o.crate for o in obls})
    with Lock("e1"):
        prep = prepare(crates)
        if prep.errors:
            for o in obls:
                results.append(Result(o, UNDECIDED, detail="; ".join(prep.errors)))
            return results, prep, info
        srcdir = os.path.join(E1DIR, "src")
        for crate in crates:
            mine = [o for o in obls if o.crate == crate]
            groups = {}
            for o in mine:
                # one cargo-kani invocation per flag set: all harnesses share the 16 worker threads; the per-harness
                # timeout is the largest budget in the group (budgets are >= 5x the measured time on the unchanged tree)
                key = (tuple(sorted(f for f in o.flags if f in ("nofloat", "quant"))), 0)
                groups.setdefault(key, []).append(o)
            for (flags, _budget), os_ in sorted(groups.items()):
                # heavy harnesses (mem) get fewer jobs
                heavy = any("heavy" in o.flags for o in os_)
                jobs = min(NCPU, 4) if heavy else NCPU
                tmo = max(o.budget for o in os_)
                outjson = os.path.join(E1DIR, f"out-{crate}-{'_'.join(flags) or 'std'}-{os.getpid()}.json")
                if os.path.exists(outjson):
                    os.remove(outjson)
                cmd = _kani_cmd(crate, [o.harness for o in sorted(os_, key=lambda o: -o.budget)], flags, tmo, outjson, jobs)
                info["cmds"].append(" ".join(cmd[:14]) + f" … ({len(os_)} harnesses)")
                log(f"[e1] cargo kani {crate} flags={flags} harnesses={len(os_)} jobs={jobs}")
                wall = tmo * (len(os_) / jobs + 1) + 1500
                rc, out, dt = run(cmd, cwd=srcdir, timeout=wall, mem_gb=28)
                with open(os.path.join(E1DIR, f"last-{crate}-{'_'.join(flags) or 'std'}.log"), "w") as f:
                    f.write(out)
                res = _parse(outjson, out, os_, rc)
                if os.path.exists(outjson):
                    os.remove(outjson)
                results += res
                info.setdefault("wall", []).append(dt)
    return results, prep, info


def _parse(outjson, out, obls, rc):
    res = []
    data = None
    if os.path.exists(outjson):
        try:
            data = json.load(open(outjson))
        except Exception:
            data = None
    if data is None:
        # build failure, ICE, or driver timeout
        reason = "kani produced no result file"
        m = re.search(r"^(error(\[E\d+\])?: .*)$", out, re.M)
        if m:
            reason = "build error: " + m.group(1)
        if "internal compiler error" in out or "Kani unexpectedly panicked" in out:
            reason = "kani internal compiler error"
        if "[driver] TIMEOUT" in out:
            reason = "driver timeout"
        for o in obls:
            res.append(Result(o, UNDECIDED, detail=reason, text=out[-3000:]))
        return res
    byid = {r["harness_id"]: r for r in data.get("verification_results", {}).get("results", [])}
    stats = {c["harness_id"]: c for c in data.get("cbmc", [])}
    errs = {e["harness_id"]: e for e in data.get("error_details", [])}
    solver = "cbmc %s / %s" % (data.get("tools", {}).get("cbmc", "?"),
                               (data.get("tools", {}).get("solvers") or [{}])[0].get("name", "cadical"))
    for o in obls:
        r = byid.get(o.harness)
        if r is None:
            res.append(Result(o, UNDECIDED, detail="harness not found in kani output (anchor lost or build problem)",
                              text=out[-2000:]))
            continue
        st = r.get("status")
        dur = r.get("duration_ms", 0) / 1000.0
        failed = [c for c in r.get("checks", []) if c.get("status") not in ("Success", "Unreachable", "Satisfied", "Unsatisfiable", "Covered", "Uncovered")]
        fdesc = [f"{c.get('description','').strip()} @ {c.get('location',{}).get('file','?')}:{c.get('location',{}).get('line','?')} [{c.get('category','')}/{c.get('status')}]" for c in failed]
        if st == "Success":
            res.append(Result(o, PASS, dur, backend=solver))
        elif st == "Failure":
            real = [c for c in failed if c.get("status") == "Failure" and c.get("category") not in ("unwind",) and "unwinding assertion" not in c.get("description", "")]
            e = errs.get(o.harness, {})
            if not failed or e.get("exit_status") in ("timeout", "out_of_memory") or e.get("error_type") in ("timeout", "out_of_memory"):
                res.append(Result(o, UNDECIDED, dur, detail="kani: %s" % (e.get("exit_status") or e.get("error_type") or "failure without failed checks"), backend=solver, failed_checks=fdesc))
            elif not real:
                res.append(Result(o, UNDECIDED, dur, detail="only unwinding/undetermined checks failed", backend=solver, failed_checks=fdesc))
            else:
                res.append(Result(o, FAIL, dur, backend=solver, failed_checks=fdesc))
        else:
            res.append(Result(o, UNDECIDED, dur, detail=f"kani status {st}", backend=solver, failed_checks=fdesc))
    return res


def playback(obl, log):
    """Re-run a failed harness with concrete playback and execute the generated
    unit test natively (rustc, real code).  Returns dict for the replay file."""
    info = {"engine": "e1", "harness": obl.harness, "crate": obl.crate}
    with Lock("e1"):
        srcdir = os.path.join(E1DIR, "src")
        prepare([obl.crate])
        outjson = os.path.join(E1DIR, f"pb-{os.getpid()}.json")
        cmd = _kani_cmd(obl.crate, [obl.harness], obl.flags, max(obl.budget, 600), outjson, 1,
                        extra=["-Z", "concrete-playback", "--concrete-playback=print"])
        # terse output hides the test; use regular for this one
        i = cmd.index("terse")
        cmd[i] = "regular"
        rc, out, dt = run(cmd, cwd=srcdir, timeout=obl.budget * 3 + 1500, mem_gb=28)
        if os.path.exists(outjson):
            os.remove(outjson)
        m = re.search(r"```\s*\n(.*?#\[test\].*?)```", out, re.S)
        if not m:
            m = re.search(r"(///[^\n]*\n#\[test\].*?\n}\n)", out, re.S)
        i0 = out.rfind("SUMMARY:")
        info["kani_output_tail"] = out[i0:][-6000:] if i0 >= 0 else out[-3000:]
        if not m:
            info["concrete_test"] = None
            info["confirmed"] = False
            info["note"] = "kani gave no concrete playback test"
            return info
        test = m.group(1)
        info["concrete_test"] = test
        tname = re.search(r"fn\s+(kani_concrete_playback_\w+)", test)
        info["test_name"] = tname.group(1) if tname else None
        info.update(run_playback_test(obl, test, log))
    return info


def run_playback_test(obl, test, log):
    """Insert the concrete test into the harness module of the scratch copy and run it natively."""
    from e1 import CRATES
    srcdir = os.path.join(E1DIR, "src")
    # find the harness file for this obligation
    hf = None
    for f in harness_files(obl.crate):
        if re.search(r"\bfn\s+%s\b" % re.escape(obl.harness.split("::")[-1]), open(f).read()):
            hf = f
    rel = target_rel(obl.crate, hf)
    dst = os.path.join(srcdir, rel)
    text = open(dst).read()
    # insert before the final closing brace of the file (end of harness module)
    idx = text.rstrip().rfind("}")
    new = text[:idx] + "\n" + test + "\n" + text[idx:]
    with open(dst, "w") as f:
        f.write(new)
    tname = re.search(r"fn\s+(kani_concrete_playback_\w+)", test).group(1)
    cargs = list(CRATES[obl.crate][1])
    if obl.crate == "uiua":
        # the crate's own #[cfg(test)] code needs `native_sys` to compile
        cargs[cargs.index("ga,opt")] = "ga,opt,native_sys"
    cmd = ["cargo", "kani", "playback", "-Z", "concrete-playback"] + cargs + ["--", tname]
    rc, out, dt = run(cmd, cwd=srcdir, timeout=3000,
                      env={"CARGO_TARGET_DIR": os.path.join(E1DIR, "target-playback")})
    with open(dst, "w") as f:
        f.write(text)
    ran = re.search(r"test result: (\w+)\. (\d+) passed; (\d+) failed", out)
    confirmed = bool(ran and int(ran.group(3)) > 0)
    note = ""
    if not ran:
        note = "playback test did not run: " + out[-1500:]
    return {"confirmed": confirmed, "playback_cmd": " ".join(cmd), "playback_tail": out[-3000:],
            "playback_ran": bool(ran), "note": note}
