"""E3: Kani on mechanically extracted text (placeholder until built)."""


def registry():
    return []


def run_obligations(obls, log):
    return [], None, {}
