"""E3: Kani on mechanically extracted text (bounded).

For each family under contracts/xkani/<family>/ the items listed in
contracts/xkani/families.py are cut verbatim out of /repo's working tree on
every run and written to src/extracted.rs of a scratch copy of the family's
small crate (shim + harnesses), which `cargo kani` then checks.  Sizes are
concrete, contents symbolic: every obligation here is *bounded*."""
import hashlib
import importlib.util
import json
import os
import re
import shutil

import e1
import extract
from core import (FAIL, NCPU, PASS, REPO, SCRATCH, UNDECIDED, VERIF, Lock, Obligation, Result,
                  parse_annots, run, sha256_file, write_if_changed)

E3DIR = os.path.join(SCRATCH, "e3")
XK = os.path.join(VERIF, "contracts", "xkani")


def _families():
    p = os.path.join(XK, "families.py")
    spec = importlib.util.spec_from_file_location("xk_families", p)
    m = importlib.util.module_from_spec(spec)
    spec.loader.exec_module(m)
    return m.FAMILIES


def registry():
    obls = []
    for fam, cfg in _families().items():
        d = os.path.join(XK, fam, "src")
        for fn in sorted(os.listdir(d)):
            if not fn.startswith("harness") or not fn.endswith(".rs"):
                continue
            mod = fn[:-3]
            text = open(os.path.join(d, fn)).read()
            for kv in parse_annots(text):
                if not kv.get("_fn"):
                    raise RuntimeError(f"{fam}/{fn}:{kv['_line']}: annotation without fn")
                flags = tuple(f for f in kv.get("flags", "").split(",") if f)
                obls.append(Obligation(
                    kv["id"], kv["props"].split(","), "e3-kani-extract", kv.get("level", "bounded"),
                    kv.get("tier", "quick"), kv.get("expect", "pass"),
                    anchor=kv.get("anchor", cfg.get("anchor", fam)), desc=kv.get("desc", ""),
                    bound=kv.get("bound", cfg.get("bound", "")), flags=flags,
                    budget=int(kv.get("budget", "300")), harness=f"{mod}::{kv['_fn']}", crate=fam))
    return obls


# ------------------------------------------------------------------ extraction
def extract_family(fam, cfg):
    """Returns (text of extracted.rs, report, errors, sources)"""
    out = [cfg.get("header", "use crate::shim::*;\n")]
    report, errors, sources = [], [], {}
    cache = {}

    def read(rel):
        if rel not in cache:
            p = os.path.join(REPO, rel)
            cache[rel] = open(p).read()
            sources[rel] = {"file": rel, "sha256": sha256_file(p)}
        return cache[rel]

    for grp in cfg["groups"]:
        items_txt = []
        for it in grp["items"]:
            rep = {"item": it.get("name") or it.get("fn") or it.get("arm"), "file": it["file"], "rewrites": []}
            try:
                src = read(it["file"])
                kind = it["kind"]
                if kind == "fn_first":
                    # the first (top-level) definition of a name that also occurs nested elsewhere
                    ms = [m for m in re.finditer(r"(?m)^pub fn " + re.escape(it["fn"]) + r"\b", src)]
                    if len(ms) != 1:
                        raise extract.AnchorLost(f"top-level fn {it['fn']}: {len(ms)} definitions")
                    b = extract.scan(src, ms[0].end(), "{;")
                    e = extract.match_brace(src, b)
                    text = src[ms[0].start():e]
                    rep["source"] = f"{it['file']}:{extract.line_of(src, ms[0].start())}-{extract.line_of(src, e)}"
                elif kind == "fn":
                    if it.get("impl"):
                        info = extract.find_fn_in_impls(src, it["fn"], it["impl"])
                    else:
                        info = extract.find_fn(src, it["fn"], 0, len(src))
                    if it.get("inner_fn"):
                        info = extract.find_fn(src, it["inner_fn"], info["body_start"], info["body_end"])
                    text = src[info["sig_start"]:info["body_end"]]
                    rep["source"] = f"{it['file']}:{extract.line_of(src, info['fn_kw'])}-{extract.line_of(src, info['body_end'])}"
                elif kind == "block":
                    # a braced item found by its header regex (struct / impl / const), whole block verbatim
                    ms = list(re.finditer(it["header"], src, re.M))
                    if len(ms) != 1:
                        raise extract.AnchorLost(f"header {it['header']!r} matches {len(ms)} times")
                    if it.get("nobrace"):
                        e = ms[0].end()
                    else:
                        b = src.index("{", ms[0].end() - 1)
                        e = extract.match_brace(src, b)
                    text = src[ms[0].start():e]
                    rep["source"] = f"{it['file']}:{extract.line_of(src, ms[0].start())}-{extract.line_of(src, e)}"
                elif kind == "file_minus":
                    # the whole file minus a closed list of named regions (each must match exactly once)
                    text = src
                    dropped = []
                    for dk, dpat in it["drop"]:
                        ms = list(re.finditer(dpat, text, re.M))
                        if len(ms) != 1:
                            raise extract.AnchorLost(f"drop region {dpat!r} matches {len(ms)} times")
                        m0 = ms[0]
                        if dk == "line":
                            a, b = m0.start(), m0.end()
                        else:
                            bb = text.index("{", m0.end() - 1)
                            b = extract.match_brace(text, bb)
                            a = m0.start()
                        dropped.append({"region": dpat, "lines": text[a:b].count("\n") + 1})
                        text = text[:a] + text[b:]
                    rep["dropped_regions"] = dropped
                    rep["source"] = f"{it['file']} (whole file, {src.count(chr(10))} lines)"
                elif kind == "lines":
                    # one or more whole statements/items found by a regex (e.g. a const)
                    ms = list(re.finditer(it["regex"], src, re.M))
                    if len(ms) != 1:
                        raise extract.AnchorLost(f"regex {it['regex']!r} matches {len(ms)} times")
                    text = ms[0].group(0)
                    rep["source"] = f"{it['file']}:{extract.line_of(src, ms[0].start())}"
                elif kind == "arm":
                    # one match arm of a (possibly nested) fn, emitted as `sig { <arm body> }`
                    if it.get("impl"):
                        info = extract.find_fn_in_impls(src, it["fn"], it["impl"])
                    else:
                        info = extract.find_fn(src, it["fn"], 0, len(src))
                    if it.get("inner_fn"):
                        info = extract.find_fn(src, it["inner_fn"], info["body_start"], info["body_end"])
                    abody, is_block, span = extract.find_arm(src, it["arm"], info["body_start"], info["body_end"])
                    text = it["sig"] + " {\n" + abody + ("\n    Ok(())" if it.get("epilogue_ok") else "") + it.get("epilogue", "") + "\n}"
                    rep["source"] = f"{it['file']}:{extract.line_of(src, span[0])}-{extract.line_of(src, span[1])} (arm `{it['arm']}`)"
                elif kind == "closure_in_arm":
                    if it.get("impl"):
                        info = extract.find_fn_in_impls(src, it["fn"], it["impl"])
                    else:
                        info = extract.find_fn(src, it["fn"], 0, len(src))
                    abody, is_block, span = extract.find_arm(src, it["arm"], info["body_start"], info["body_end"])
                    m = re.search(it.get("closure", r"\|env\|\s*\{"), abody)
                    if not m:
                        raise extract.AnchorLost("closure not found in arm")
                    b = m.end() - 1
                    e = extract.match_brace(abody, b)
                    text = it["sig"] + " {" + abody[b + 1:e - 1] + "}"
                    rep["source"] = f"{it['file']}:{extract.line_of(src, span[0])}-{extract.line_of(src, span[1])} (closure in arm)"
                elif kind == "range_in_fn":
                    # statements of a fn body between two regex anchors (inclusive start, exclusive end)
                    if it.get("impl"):
                        info = extract.find_fn_in_impls(src, it["fn"], it["impl"])
                    else:
                        info = extract.find_fn(src, it["fn"], 0, len(src))
                    body = src[info["body_start"]:info["body_end"]]
                    ms = list(re.finditer(it["start"], body, re.M))
                    if len(ms) != 1:
                        raise extract.AnchorLost(f"start anchor matches {len(ms)} times")
                    s0 = ms[0].start()
                    if it.get("brace_block"):
                        b = body.index("{", ms[0].end() - 1)
                        e0 = extract.match_brace(body, b)
                    else:
                        me = re.compile(it["end"], re.M).search(body, ms[0].end())
                        if not me:
                            raise extract.AnchorLost("end anchor not found")
                        e0 = me.start()
                    text = it["sig"] + " {\n" + it.get("prologue", "") + body[s0:e0] + it.get("epilogue", "") + "\n}"
                    rep["source"] = f"{it['file']}:{extract.line_of(src, info['body_start'] + s0)}-{extract.line_of(src, info['body_start'] + e0)} (block of {it['fn']})"
                else:
                    raise ValueError(kind)
                rep["verbatim_sha256"] = hashlib.sha256(text.encode()).hexdigest()
                rep["verbatim_lines"] = text.count("\n") + 1
                for rid, pat, rpl, why in it.get("rewrites", ()) + cfg.get("rewrites", ()):
                    new, n = re.subn(pat, rpl, text)
                    if n:
                        rep["rewrites"].append({"rewrite": rid, "count": n, "what": why, "pattern": pat})
                        text = new
                bad = cfg.get("forbid")
                if bad and it.get("check_forbid", True):
                    m = re.search(bad, text)
                    if m:
                        raise extract.AnchorLost(f"extracted text uses `{m.group(0)}`: outside what the shim can model (parametricity guard)")
                items_txt.append(text)
            except extract.AnchorLost as ex:
                rep["error"] = str(ex)
                errors.append(f"{rep['item']}: {ex}")
            report.append(rep)
        pre = grp.get("prefix", "")
        if grp.get("wrap"):
            out.append(pre + grp["wrap"] + " {\n" + "\n".join(items_txt) + "\n}\n")
        else:
            out.append(pre + "\n".join(items_txt) + "\n")
    return "\n".join(out), report, errors, list(sources.values())


def prepare(fam, cfg):
    dst = os.path.join(E3DIR, fam)
    src = os.path.join(XK, fam)
    os.makedirs(dst, exist_ok=True)
    rc, out, _ = run(["rsync", "-a", "--delete", "--exclude", "/target", src + "/", dst + "/"])
    text, report, errors, sources = extract_family(fam, cfg)
    with open(os.path.join(dst, "src", "extracted.rs"), "w") as f:
        f.write(text)
    return dst, report, errors, sources


def _run_family(fam, cfg, mine, jobs_cap, log):
    """Extracts one family and runs its harnesses; returns (results, sources, extraction info, cmds)."""
    results, cmds = [], []
    dst, report, errors, sources = prepare(fam, cfg)
    ext = {"items": report, "dropped": cfg.get("dropped", "")}
    if errors:
        for o in mine:
            results.append(Result(o, UNDECIDED, detail="extraction: " + "; ".join(errors)))
        return results, sources, ext, cmds
    groups = {}
    for o in mine:
        key = (tuple(sorted(f for f in o.flags if f in ("nofloat",))), 0)
        groups.setdefault(key, []).append(o)
    for (flags, _b), os_ in sorted(groups.items()):
        budget = max(o.budget for o in os_)
        heavy = any("heavy" in o.flags for o in os_)
        jobs = min(jobs_cap, 4) if heavy else jobs_cap
        outjson = os.path.join(E3DIR, f"out-{fam}-{os.getpid()}.json")
        if os.path.exists(outjson):
            os.remove(outjson)
        cmd = ["cargo", "kani", "--target-dir", os.path.join(E3DIR, "target-" + fam),
               "-Z", "function-contracts", "-Z", "stubbing", "-Z", "unstable-options", "--exact",
               "-j", str(jobs), "--output-format", "terse", "--export-json", outjson,
               "--harness-timeout", f"{budget}s"]
        if "nofloat" in flags:
            cmd.append("--no-overflow-checks")
        for o in sorted(os_, key=lambda o: -o.budget):
            cmd += ["--harness", o.harness]
        cmds.append(f"(cd <scratch>/e3/{fam}; " + " ".join(cmd[:12]) + f" … {len(os_)} harnesses)")
        log(f"[e3] cargo kani family={fam} harnesses={len(os_)} budget={budget}s jobs={jobs}")
        wall = budget * (len(os_) / jobs + 1) + 900
        rc, out, dt = run(cmd, cwd=dst, timeout=wall, mem_gb=28)
        with open(os.path.join(E3DIR, f"last-{fam}.log"), "w") as f:
            f.write(out)
        results += e1._parse(outjson, out, os_, rc)
        if os.path.exists(outjson):
            os.remove(outjson)
    return results, sources, ext, cmds


def run_obligations(obls, log):
    """Families are independent crates: they are verified side by side, the cores being shared out in
    proportion to the number of harnesses (at least 2 per family)."""
    from concurrent.futures import ThreadPoolExecutor
    results = []
    info = {"cmds": [], "extraction": {}}
    prep = type("P", (), {})()
    prep.sources = []
    fams = _families()
    with Lock("e3"):
        names = sorted({o.crate for o in obls})
        per = {f: [o for o in obls if o.crate == f] for f in names}
        total = sum(len(v) for v in per.values())
        if len(names) == 1:
            share = {names[0]: NCPU}
        else:
            # relative cost of one harness of the family (measured: heap-heavy extracted array / map code vs. small routing harnesses)
            w = {f: len(per[f]) * fams[f].get("cost", 1) for f in names}
            share = {f: max(2, min(len(per[f]), round(NCPU * w[f] / sum(w.values())))) for f in names}
        with ThreadPoolExecutor(max_workers=max(1, min(len(names), 6))) as ex:
            futs = {f: ex.submit(_run_family, f, fams[f], per[f], share[f], log) for f in names}
            for f in names:
                r, sources, ext, cmds = futs[f].result()
                results += r
                prep.sources += sources
                info["extraction"][f] = ext
                info["cmds"] += cmds
    return results, prep, info


def playback(obl, log):
    """Concrete playback of a failed E3 harness, executed natively against the extracted text."""
    fams = _families()
    info = {"engine": "e3", "harness": obl.harness, "family": obl.crate}
    with Lock("e3"):
        dst, report, errors, sources = prepare(obl.crate, fams[obl.crate])
        cmd = ["cargo", "kani", "--target-dir", os.path.join(E3DIR, "target-" + obl.crate),
               "-Z", "function-contracts", "-Z", "stubbing", "-Z", "unstable-options", "--exact",
               "-Z", "concrete-playback", "--concrete-playback=print", "--harness", obl.harness,
               "--harness-timeout", f"{max(obl.budget, 600)}s"]
        if "nofloat" in obl.flags:
            cmd.append("--no-overflow-checks")
        rc, out, dt = run(cmd, cwd=dst, timeout=obl.budget * 3 + 900, mem_gb=28)
        i0 = out.rfind("SUMMARY:")
        info["kani_output_tail"] = out[i0:][-6000:] if i0 >= 0 else out[-3000:]
        m = re.search(r"```\s*\n(.*?#\[test\].*?)```", out, re.S)
        if not m:
            info.update({"concrete_test": None, "confirmed": False, "playback_ran": False,
                         "note": "kani gave no concrete playback test"})
            return info
        test = m.group(1)
        info["concrete_test"] = test
        mod = obl.harness.split("::")[0]
        hp = os.path.join(dst, "src", mod + ".rs")
        text = open(hp).read()
        with open(hp, "w") as f:
            f.write(text + "\n" + test + "\n")
        tname = re.search(r"fn\s+(kani_concrete_playback_\w+)", test).group(1)
        rc, out, dt = run(["cargo", "kani", "playback", "-Z", "concrete-playback", "--", tname], cwd=dst, timeout=1800,
                          env={"CARGO_TARGET_DIR": os.path.join(E3DIR, "target-pb-" + obl.crate)})
        with open(hp, "w") as f:
            f.write(text)
        ran = re.search(r"test result: (\w+)\. (\d+) passed; (\d+) failed", out)
        info.update({"confirmed": bool(ran and int(ran.group(3)) > 0), "playback_ran": bool(ran),
                     "playback_tail": out[-3000:],
                     "note": "replayed natively (rustc) against the text extracted from /repo; the shim stands in for the rest of the interpreter"})
    return info


def warm(log):
    """compile every family crate once (one cheap harness each)"""
    fams = _families()
    obls = registry()
    with Lock("e3"):
        for fam, cfg in fams.items():
            mine = [o for o in obls if o.crate == fam and o.expect == "fail"][:1] or [o for o in obls if o.crate == fam][:1]
            if not mine:
                continue
            dst, report, errors, sources = prepare(fam, cfg)
            cmd = ["cargo", "kani", "--target-dir", os.path.join(E3DIR, "target-" + fam), "-Z", "unstable-options", "--exact",
                   "--harness", mine[0].harness, "--harness-timeout", "300s", "--output-format", "terse"]
            rc, out, dt = run(cmd, cwd=dst, timeout=1500)
            log(f"[warm] e3 {fam}: rc={rc} {dt:.0f}s")
