#!/usr/bin/env python3
"""Pre-build the Kani artefacts of the real crates (dependencies + crates with
all harness modules appended) so later checks are incremental."""
import os, sys
sys.path.insert(0, os.path.dirname(os.path.abspath(__file__)))
import core, e1

def log(m): print(m, file=sys.stderr, flush=True)
with core.Lock("e1"):
    prep = e1.prepare(list(e1.CRATES))
    for crate in e1.CRATES:
        obls = [o for o in e1.registry() if o.crate == crate]
        if not obls:
            continue
        # run one cheap harness: builds everything
        o = obls[0]
        cmd = e1._kani_cmd(crate, [o.harness], (), 120, os.path.join(e1.E1DIR, "warm.json"), 4)
        rc, out, dt = core.run(cmd, cwd=os.path.join(e1.E1DIR, "src"), timeout=3000)
        log(f"[warm] {crate}: rc={rc} {dt:.0f}s")
try:
    import e2
    if hasattr(e2, "warm"): e2.warm(log)
    import e3
    if hasattr(e3, "warm"): e3.warm(log)
except Exception as ex:
    log(f"[warm] {ex!r}")
