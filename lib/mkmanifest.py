#!/usr/bin/env python3
"""Regenerate MANIFEST.json from lib/props.py and the obligation registries."""
import json
import os
import sys

HERE = os.path.dirname(os.path.abspath(__file__))
sys.path.insert(0, HERE)
import e1, e2, e3, props  # noqa

VERIF = os.path.dirname(HERE)
obls = e1.registry() + e2.registry() + e3.registry()

checks = []
for pid, (level, dref) in sorted(props.CLAIMED.items()):
    mine = [o for o in obls if pid in o.props and o.expect == "pass"]
    if not mine:
        continue
    engines = sorted({o.engine for o in mine})
    n_c = len([o for o in mine if o.level in ("complete", "unbounded")])
    n_b = len([o for o in mine if o.level == "bounded"])
    meta = props.MANIFEST_TEXT[pid]
    checks.append({
        "property_id": pid,
        "quick_cmd": f"./check {pid} --tier quick",
        "thorough_cmd": f"./check {pid} --tier thorough",
        "evidence_file": f"/verif/evidence/{pid}.json",
        "replay_cmd_template": f"./check {pid} --replay {{path}}",
        "engine": "+".join(engines),
        "level_claimed": {"category": level, "text": meta["text"] + f" ({n_c} complete/unbounded obligations, {n_b} bounded ones registered.)", "design_ref": dref},
        "level_note": meta["note"],
        "technique": meta["technique"],
    })
na = [{"property_id": k, "reason": v} for k, v in sorted(props.NOT_APPLICABLE.items())]
for pid in props.CLAIMED:
    if pid not in {c["property_id"] for c in checks}:
        na.append({"property_id": pid, "reason": "claimable in principle (see DESIGN.md) but no obligation is built yet; not claimed"})
m = {
    "version": 1,
    "setup_cmd": "./setup.sh",
    "hooks": {
        "guard": "cfg(kani)",
        "enable": "no hook commits in /repo: harness modules (#[cfg(kani)] mod … { use super::*; }) and #[cfg_attr(kani, kani::requires/ensures)] contracts are appended/spliced into a scratch COPY of the working tree on every run; extracted functions are cut out of the working tree on every run",
        "baseline_off_cmd": "cd /repo && cargo test --workspace --no-fail-fast --offline",
        "source_commits": [],
        "add_only": True,
    },
    "engines": [
        {"name": "e1-kani-inplace", "path": "lib/e1.py + contracts/inplace/", "serves_properties": sorted({p for o in obls if o.engine == "e1-kani-inplace" for p in o.props}), "kind_free_text": "Kani/CBMC on the real crates: harness modules and function contracts appended to a scratch copy of the working tree"},
        {"name": "e2-verus-extract", "path": "lib/e2.py + contracts/verus/", "serves_properties": sorted({p for o in obls if o.engine == "e2-verus-extract" for p in o.props}), "kind_free_text": "Verus on functions / match arms cut mechanically out of the working tree, against a shim of assumed contracts"},
        {"name": "e3-kani-extract", "path": "lib/e3.py + contracts/xkani/", "serves_properties": sorted({p for o in obls if o.engine == "e3-kani-extract" for p in o.props}), "kind_free_text": "Kani on functions cut mechanically out of the working tree, compiled against a small Rust shim, concrete sizes / symbolic contents (bounded)"},
    ],
    "checks": checks,
    "not_applicable": sorted(na, key=lambda x: x["property_id"]),
    "notes": "Contract-based deductive verification only (Kani function contracts / harnesses on the real code, Verus on mechanically extracted text). Exit 0 = all obligations discharged, 1 = VIOLATION, 2 = undecided (never an alarm). Known findings: known_findings.txt.",
}
json.dump(m, open(os.path.join(VERIF, "MANIFEST.json"), "w"), indent=1)
print("MANIFEST.json:", len(checks), "checks,", len(na), "not applicable")
