#!/bin/sh
# Offline setup: nothing to install.  Pre-warm the Kani build of the real crates
# (target dir under $VERIF_SCRATCH, default /var/tmp/uiua-verif) so that the
# first check does not pay for compiling the dependencies.
set -e
cd "$(dirname "$0")"
export CARGO_NET_OFFLINE=true
python3 lib/warm.py || true
exit 0
