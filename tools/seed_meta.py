#!/usr/bin/env python3
"""Writes seeded/<id>/meta.json from the confirmation logs and the check logs of each seed."""
import glob, json, os, re
ROOT = "/verif/seeded"
ORIGIN = {"REV": "reverse of a `fix:` commit of /repo (the defect the machinery found on the pinned tree, re-introduced)"}
rows = []
for d in sorted(glob.glob(ROOT + "/*/")):
    sid = os.path.basename(d.rstrip("/"))
    if not os.path.exists(d + "patch.diff"):
        continue
    prop = sid.split("-")[0] if not sid.startswith("REV") else None
    files = re.findall(r"^\+\+\+ b/(\S+)", open(d + "patch.diff").read(), re.M)
    notes = open(d + "notes.md").read() if os.path.exists(d + "notes.md") else ""
    cw = open(d + "confirm_with.log").read() if os.path.exists(d + "confirm_with.log") else ""
    cwo = open(d + "confirm_without.log").read() if os.path.exists(d + "confirm_without.log") else ""
    rw = re.findall(r"test result: (\w+)\. (\d+) passed; (\d+) failed", cw)
    rwo = re.findall(r"test result: (\w+)\. (\d+) passed; (\d+) failed", cwo)
    checks = {}
    for f in glob.glob(d + "check_*.log"):
        p = re.search(r"check_(\w+)\.log", f).group(1)
        t = open(f).read()
        viol = sorted(set(re.findall(r"replays/([\w.\-]+)\.json", t)))
        und = sorted(set(re.findall(r"UNDECIDED obligation=(\S+)", t)))
        last = [l for l in t.strip().split("\n") if l.startswith("[check]")][-1:] or [""]
        m = re.search(r"exit=(\d)", last[0])
        checks[p] = {"exit": int(m.group(1)) if m else None, "violated_obligations": viol, "undecided_obligations": und[:6], "summary": last[0]}
        if prop is None:
            prop = p
    caught = any(c["exit"] == 1 for c in checks.values())
    meta = {
        "seed": sid, "breaks_property": prop, "files_touched": files,
        "origin": ORIGIN["REV"] if sid.startswith("REV") else "written by a sub-agent that was given only the property text and a scratch worktree",
        "needs_to_manifest": ((re.search(r"(?is)(needs?|manifests? when|what it needs)[^\n]*\n?(.{0,400})", notes) or re.search(r"(?s).{0,300}", notes)).group(0)[:500]),
        "confirmed_by_me": {"command": "tools/seed_confirm.sh " + sid + "  (scratch worktree of /repo HEAD; cargo test --offline -p uiua --no-default-features --test seed_demo)",
                             "demo_without_patch": rwo[-1] if rwo else None, "demo_with_patch": rw[-1] if rw else None},
        "checks_run": {"command": "tools/run_seed.sh " + sid + " <prop>  (patch applied to a scratch worktree, ./check <prop> --tier quick with VERIF_REPO pointing at it)", "results": checks},
        "detected": caught,
    }
    json.dump(meta, open(d + "meta.json", "w"), indent=1, ensure_ascii=False)
    rows.append((sid, prop, ",".join(files), "caught" if caught else ("undecided" if any(c["exit"] == 2 for c in checks.values()) else ("missed" if checks else "not run")),
                 "; ".join(v for c in checks.values() for v in c["violated_obligations"][:3])))
for r in rows:
    print(" | ".join(r))
