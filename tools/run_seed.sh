#!/bin/bash
# usage: run_seed.sh <seed-id> <property> [tier]: applies the seed's patch to a scratch worktree of /repo's HEAD and
# runs ./check <property> against it (VERIF_REPO), with its own scratch dir; writes seeded/<id>/check_<prop>.log
id=$1; prop=$2; tier=${3:-quick}
S=/verif/seeded/$id
W=/var/tmp/uiua-verif/seedrun_$id
rm -rf $W; git -C /repo worktree prune; git -C /repo worktree add -q --detach $W HEAD || exit 3
(cd $W && git apply $S/patch.diff) || { echo "$id: patch does not apply"; git -C /repo worktree remove --force $W; exit 4; }
cd /verif
VERIF_REPO=$W VERIF_SCRATCH=${VERIF_SCRATCH:-/var/tmp/uiua-verif-seed} VERIF_REPLAYS=$S/replays VERIF_NO_PLAYBACK=${VERIF_NO_PLAYBACK:-1} ./check $prop --tier $tier --no-evidence > $S/check_$prop.log 2>&1
rc=$?
echo "$id $prop rc=$rc :: $(grep -c '^VIOLATION' $S/check_$prop.log) violations; $(grep '^VIOLATION' $S/check_$prop.log | sed 's/.*replays\///; s/\.json.*//' | tr '\n' ' ' | cut -c1-300) :: $(tail -1 $S/check_$prop.log | cut -c1-200)"
git -C /repo worktree remove --force $W
