#!/bin/bash
# usage: seed_confirm.sh <seed-id> : confirms, in a scratch worktree of /repo's HEAD, that the seed's
# patch applies and compiles, that its demo FAILS with the patch and PASSES without it.
set -u
id=$1
S=/verif/seeded/$id
W=/var/tmp/uiua-verif/seedwt_$id
export CARGO_NET_OFFLINE=true CARGO_TARGET_DIR=/var/tmp/uiua-verif/seed-target
rm -rf $W; git -C /repo worktree prune; git -C /repo worktree add -q --detach $W HEAD || exit 3
cd $W
res="{}"
if ! git apply --check $S/patch.diff 2>/dev/null; then echo "$id: PATCH DOES NOT APPLY"; git -C /repo worktree remove --force $W; exit 4; fi
cp $S/demo.rs tests/seed_demo.rs
cargo test --offline -p uiua --no-default-features --test seed_demo > $S/confirm_without.log 2>&1; rc_without=$?
git apply $S/patch.diff
cargo test --offline -p uiua --no-default-features --test seed_demo > $S/confirm_with.log 2>&1; rc_with=$?
grep -q "could not compile\|^error\[" $S/confirm_with.log && compiled=no || compiled=yes
echo "$id: without-patch rc=$rc_without ($(grep 'test result' $S/confirm_without.log | tail -1)) ; with-patch rc=$rc_with compiled=$compiled ($(grep 'test result' $S/confirm_with.log | tail -1))"
cd /; git -C /repo worktree remove --force $W
