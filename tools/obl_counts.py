#!/usr/bin/env python3
"""Prints, per claimed property, the number of registered obligations expected to hold by level
(complete / unbounded / bounded), the number of guards, and how many run in the quick tier."""
import os, sys
HERE = os.path.dirname(os.path.abspath(__file__))
sys.path.insert(0, os.path.join(HERE, "..", "lib"))
import e1, e2, e3, props
obl = e1.registry() + e2.registry() + e3.registry()
for pid in sorted(props.CLAIMED):
    mine = [o for o in obl if pid in o.props]
    if pid == "C09":
        q = [o for o in mine if o.tier == "quick" and any(o.id.startswith(p) for p in props.C09_QUICK_PREFIXES)]
    else:
        q = [o for o in mine if o.tier == "quick"]
    hold = [o for o in mine if o.expect != "fail"]
    c = sum(1 for o in hold if o.level == "complete")
    u = sum(1 for o in hold if o.level == "unbounded")
    b = sum(1 for o in hold if o.level == "bounded")
    g = len(mine) - len(hold)
    print(f"{pid}: {c}/{u}/{b}, guards {g}, quick {len(q)} (of {len(mine)})")
