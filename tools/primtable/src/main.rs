//! Prints `Variant args outputs` for every built-in primitive, read from the REAL
//! definitions table (parser/src/defs.rs) by linking against the repository's parser crate.
use uiua_parser::Primitive;
fn main() {
    for p in Primitive::all() {
        let a = p.args().map(|x| x as i64).unwrap_or(-1);
        let o = p.outputs().map(|x| x as i64).unwrap_or(-1);
        let m = p.modifier_args().map(|x| x as i64).unwrap_or(-1);
        if let Primitive::Sys(op) = p {
            println!("Sys_{:?} {} {} {}", op, a, o, m);
            continue;
        }
        println!("{:?} {} {} {}", p, a, o, m);
    }
}
