//! Tiny runner linked against /repo: runs each argument (or stdin) as a Uiua
//! program under the safe backend and prints the resulting stack or the error.
use uiua::*;
fn main() {
    let args: Vec<String> = std::env::args().skip(1).collect();
    let progs: Vec<String> = if args.is_empty() {
        let mut s = String::new();
        std::io::Read::read_to_string(&mut std::io::stdin(), &mut s).unwrap();
        vec![s]
    } else {
        args
    };
    for p in progs {
        #[cfg(not(feature = "native"))]
        let mut env = Uiua::with_safe_sys();
        #[cfg(feature = "native")]
        let mut env = Uiua::with_native_sys();
        match env.run_str(&p) {
            Ok(_) => {
                let out = env.take_stack();
                println!("OK {}", out.iter().map(|v| v.show().replace('\n', " ⏎ ")).collect::<Vec<_>>().join(" | "));
            }
            Err(e) => {
                let out = env.take_stack();
                println!("ERR {} || stack: {}", e.to_string().replace('\n', " ⏎ "), out.iter().map(|v| v.show().replace('\n', " ⏎ ")).collect::<Vec<_>>().join(" | "));
            }
        }
    }
}
