#!/bin/bash
# runs every claimed property's quick check on /repo's working tree, one after the other; prints exit code and wall time
cd /verif
for p in ${@:-C02 C03 C04 C05 C06 C07 C08 C09 C11 C15 C16 C17 C19 C20}; do
  s=$(date +%s)
  ./check $p > /var/tmp/quick_$p.log 2>&1; rc=$?
  e=$(date +%s)
  echo "$p rc=$rc wall=$((e-s))s :: $(grep -c '^VIOLATION' /var/tmp/quick_$p.log) violations, $(grep -c '^UNDECIDED' /var/tmp/quick_$p.log) undecided, $(grep -c '^KNOWN-FINDING' /var/tmp/quick_$p.log) known :: $(tail -1 /var/tmp/quick_$p.log | cut -c1-160)"
done
